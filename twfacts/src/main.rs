// twfacts: rustc_private driver exporting the type-checked program of the
// textwrap library crate (MIR at opt-level 0, resolved callees, constants,
// signatures, ADT layouts) as one JSON file per compilation.
//
// Used as RUSTC_WORKSPACE_WRAPPER: argv = [twfacts, <rustc>, args...].
// Output path: $TWFACTS_OUT (one write per process). $TWFACTS_NONCE is echoed.
#![feature(rustc_private)]
extern crate rustc_abi;
extern crate rustc_driver;
extern crate rustc_hir;
extern crate rustc_interface;
extern crate rustc_middle;
extern crate rustc_span;

use rustc_driver::Compilation;
use rustc_hir::def::DefKind;
use rustc_hir::def_id::{DefId, LOCAL_CRATE};
use rustc_interface::interface::Compiler;
use rustc_middle::mir::{
    self, AggregateKind, AssertKind, BinOp, Body, BorrowKind, CastKind, Const, ConstValue,
    Operand, Place, ProjectionElem, Rvalue, StatementKind, TerminatorKind, UnOp,
};
use rustc_middle::ty::print::with_no_trimmed_paths;
use rustc_middle::ty::{self, Instance, Ty, TyCtxt, TypingEnv};
use rustc_span::Span;
use std::fmt::Write as _;

mod json;
use json::J;

struct Cb;

fn span_str(tcx: TyCtxt<'_>, sp: Span) -> String {
    let sm = tcx.sess.source_map();
    let sp = sp.source_callsite();
    let lo = sm.lookup_char_pos(sp.lo());
    let hi = sm.lookup_char_pos(sp.hi());
    let name = match &lo.file.name {
        rustc_span::FileName::Real(r) => match r.local_path() {
            Some(p) => p.display().to_string(),
            None => format!("{:?}", lo.file.name),
        },
        other => format!("{:?}", other),
    };
    format!("{}:{}:{}-{}:{}", name, lo.line, lo.col.0 + 1, hi.line, hi.col.0 + 1)
}

fn ty_str<'tcx>(ty: Ty<'tcx>) -> String {
    with_no_trimmed_paths!(format!("{}", ty))
}

fn path_str(tcx: TyCtxt<'_>, did: DefId) -> String {
    with_no_trimmed_paths!(tcx.def_path_str(did))
}

struct Ex<'a, 'tcx> {
    tcx: TyCtxt<'tcx>,
    body: &'a Body<'tcx>,
    owner: DefId,
}

impl<'a, 'tcx> Ex<'a, 'tcx> {
    fn place(&self, p: &Place<'tcx>) -> J {
        let mut proj = Vec::new();
        let mut pty = mir::PlaceTy::from_ty(self.body.local_decls[p.local].ty);
        for elem in p.projection.iter() {
            let j = match elem {
                ProjectionElem::Deref => J::s("deref"),
                ProjectionElem::Field(f, fty) => {
                    let mut o = J::obj();
                    o.set("f", J::n(f.as_usize() as i128));
                    // field name if the base is an ADT / closure
                    let name = match pty.ty.kind() {
                        ty::Adt(adt, _) => {
                            let v = match pty.variant_index {
                                Some(v) => v,
                                None => rustc_abi::FIRST_VARIANT,
                            };
                            if adt.is_enum() && pty.variant_index.is_none() {
                                None
                            } else {
                                Some(adt.variant(v).fields[f].name.to_string())
                            }
                        }
                        ty::Closure(cdid, _) => {
                            let names = self.tcx.closure_saved_names_of_captured_variables(*cdid);
                            names.get(f).map(|s| s.to_string())
                        }
                        _ => None,
                    };
                    if let Some(n) = name {
                        o.set("name", J::s(&n));
                    }
                    o.set("ty", J::s(&ty_str(fty)));
                    o
                }
                ProjectionElem::Index(l) => {
                    let mut o = J::obj();
                    o.set("index", J::n(l.as_usize() as i128));
                    o
                }
                ProjectionElem::ConstantIndex { offset, min_length, from_end } => {
                    let mut o = J::obj();
                    o.set("cindex", J::n(offset as i128));
                    o.set("min_length", J::n(min_length as i128));
                    o.set("from_end", J::b(from_end));
                    o
                }
                ProjectionElem::Subslice { from, to, from_end } => {
                    let mut o = J::obj();
                    o.set("subslice", J::n(from as i128));
                    o.set("to", J::n(to as i128));
                    o.set("from_end", J::b(from_end));
                    o
                }
                ProjectionElem::Downcast(sym, v) => {
                    let mut o = J::obj();
                    o.set("downcast", J::n(v.as_usize() as i128));
                    if let Some(s) = sym {
                        o.set("variant", J::s(s.as_str()));
                    }
                    o
                }
                ProjectionElem::OpaqueCast(_) => J::s("opaque_cast"),
                ProjectionElem::UnwrapUnsafeBinder(_) => J::s("unwrap_binder"),
            };
            proj.push(j);
            pty = pty.projection_ty(self.tcx, elem);
        }
        let mut o = J::obj();
        o.set("l", J::n(p.local.as_usize() as i128));
        o.set("p", J::Arr(proj));
        o.set("ty", J::s(&ty_str(pty.ty)));
        o
    }

    fn konst(&self, c: &mir::ConstOperand<'tcx>) -> J {
        let tcx = self.tcx;
        let ty = c.const_.ty();
        let mut o = J::obj();
        o.set("k", J::s("const"));
        o.set("ty", J::s(&ty_str(ty)));
        o.set("lit", J::s(&with_no_trimmed_paths!(format!("{}", c.const_))));
        if let ty::FnDef(did, args) = ty.kind() {
            o.set("fn", self.fn_ref(*did, args));
            return o;
        }
        if let Const::Unevaluated(uv, _) = c.const_ {
            o.set("uneval", J::s(&path_str(tcx, uv.def)));
            o.set("uneval_local", J::b(uv.def.is_local()));
            if let Some(p) = uv.promoted {
                o.set("promoted", J::n(p.as_usize() as i128));
            }
        }
        let env = TypingEnv::post_analysis(tcx, self.owner);
        if let Ok(val) = c.const_.eval(tcx, env, c.span) {
            self.const_value(&mut o, val, ty);
        }
        o
    }

    fn const_value(&self, o: &mut J, val: ConstValue, ty: Ty<'tcx>) {
        let tcx = self.tcx;
        match val {
            ConstValue::Scalar(mir::interpret::Scalar::Int(si)) => {
                let bits = si.to_bits_unchecked();
                match ty.kind() {
                    ty::Bool => o.set("bool", J::b(bits != 0)),
                    ty::Char => {
                        o.set("char", J::n(bits as i128));
                    }
                    ty::Uint(_) => o.set("int", J::n(bits as i128)),
                    ty::Int(_) => {
                        let size = si.size();
                        let v = size.sign_extend(bits);
                        o.set("int", J::n(v as i128));
                    }
                    ty::Float(ty::FloatTy::F64) => {
                        let f = f64::from_bits(bits as u64);
                        o.set("float", J::s(&format!("{:?}", f)));
                    }
                    ty::Float(ty::FloatTy::F32) => {
                        let f = f32::from_bits(bits as u32);
                        o.set("float", J::s(&format!("{:?}", f)));
                    }
                    _ => o.set("bits", J::s(&format!("{}", bits))),
                }
            }
            ConstValue::ZeroSized => o.set("zst", J::b(true)),
            ConstValue::Slice { .. } => {
                if let Some(bytes) = val.try_get_slice_bytes_for_diagnostics(tcx) {
                    if let ty::Ref(_, inner, _) = ty.kind() {
                        if inner.is_str() {
                            o.set("str", J::s(&String::from_utf8_lossy(bytes)));
                        } else {
                            o.set(
                                "bytes",
                                J::Arr(bytes.iter().map(|b| J::n(*b as i128)).collect()),
                            );
                        }
                    }
                }
            }
            _ => {}
        }
    }

    fn fn_ref(&self, did: DefId, args: ty::GenericArgsRef<'tcx>) -> J {
        let tcx = self.tcx;
        let mut o = J::obj();
        o.set("path", J::s(&path_str(tcx, did)));
        o.set("full", J::s(&with_no_trimmed_paths!(tcx.def_path_str_with_args(did, args))));
        o.set("local", J::b(did.is_local()));
        o.set("krate", J::s(tcx.crate_name(did.krate).as_str()));
        let mut ga = Vec::new();
        for a in args.iter() {
            ga.push(J::s(&with_no_trimmed_paths!(format!("{}", a))));
        }
        o.set("args", J::Arr(ga));
        // trait method?
        if let Some(tr) = tcx.trait_of_assoc(did) {
            o.set("trait", J::s(&path_str(tcx, tr)));
            o.set("method", J::s(tcx.item_name(did).as_str()));
        } else if matches!(tcx.def_kind(did), DefKind::AssocFn | DefKind::Fn) {
            o.set("method", J::s(tcx.item_name(did).as_str()));
            if let Some(imp) = tcx.impl_of_assoc(did) {
                let self_ty = tcx.type_of(imp).instantiate_identity().skip_norm_wip();
                o.set("self_ty", J::s(&ty_str(self_ty)));
            }
        }
        let env = TypingEnv::post_analysis(tcx, self.owner);
        match Instance::try_resolve(tcx, env, did, args) {
            Ok(Some(inst)) => {
                let rd = inst.def_id();
                let mut r = J::obj();
                r.set("path", J::s(&path_str(tcx, rd)));
                r.set("local", J::b(rd.is_local()));
                r.set("krate", J::s(tcx.crate_name(rd.krate).as_str()));
                r.set("kind", J::s(&format!("{:?}", inst.def).split('(').next().unwrap_or("").to_string()));
                if let Some(imp) = tcx.impl_of_assoc(rd) {
                    let self_ty = tcx.type_of(imp).instantiate_identity().skip_norm_wip();
                    r.set("self_ty", J::s(&ty_str(self_ty)));
                }
                if tcx.is_closure_like(rd) {
                    r.set("closure", J::b(true));
                }
                o.set("resolved", r);
            }
            _ => {}
        }
        o
    }

    fn operand(&self, op: &Operand<'tcx>) -> J {
        match op {
            Operand::Copy(p) => {
                let mut o = J::obj();
                o.set("k", J::s("copy"));
                o.set("place", self.place(p));
                o
            }
            Operand::Move(p) => {
                let mut o = J::obj();
                o.set("k", J::s("move"));
                o.set("place", self.place(p));
                o
            }
            Operand::Constant(c) => self.konst(c),
            #[allow(unreachable_patterns)]
            other => {
                let mut o = J::obj();
                o.set("k", J::s("other"));
                o.set("dbg", J::s(&format!("{:?}", other)));
                o
            }
        }
    }

    fn rvalue(&self, rv: &Rvalue<'tcx>) -> J {
        let mut o = J::obj();
        match rv {
            Rvalue::Use(op, ..) => {
                o.set("k", J::s("use"));
                o.set("x", self.operand(op));
            }
            Rvalue::Repeat(op, n) => {
                o.set("k", J::s("repeat"));
                o.set("x", self.operand(op));
                o.set("n", J::s(&format!("{}", n)));
            }
            Rvalue::Ref(_, bk, p) => {
                o.set("k", J::s("ref"));
                o.set(
                    "bk",
                    J::s(match bk {
                        BorrowKind::Shared => "shared",
                        BorrowKind::Fake(_) => "fake",
                        BorrowKind::Mut { .. } => "mut",
                    }),
                );
                o.set("place", self.place(p));
            }
            Rvalue::RawPtr(_, p) => {
                o.set("k", J::s("rawptr"));
                o.set("place", self.place(p));
            }
            Rvalue::Cast(ck, op, ty) => {
                o.set("k", J::s("cast"));
                let cks = match ck {
                    CastKind::IntToInt => "IntToInt".to_string(),
                    CastKind::FloatToInt => "FloatToInt".to_string(),
                    CastKind::FloatToFloat => "FloatToFloat".to_string(),
                    CastKind::IntToFloat => "IntToFloat".to_string(),
                    CastKind::PtrToPtr => "PtrToPtr".to_string(),
                    CastKind::FnPtrToPtr => "FnPtrToPtr".to_string(),
                    CastKind::Transmute => "Transmute".to_string(),
                    CastKind::PointerCoercion(pc, _) => format!("PointerCoercion({:?})", pc),
                    other => format!("{:?}", other),
                };
                o.set("ck", J::s(&cks));
                o.set("x", self.operand(op));
                o.set("ty", J::s(&ty_str(*ty)));
            }
            Rvalue::BinaryOp(op, b) => {
                o.set("k", J::s("bin"));
                o.set("op", J::s(binop_name(*op)));
                o.set("l", self.operand(&b.0));
                o.set("r", self.operand(&b.1));
            }
            Rvalue::UnaryOp(op, x) => {
                o.set("k", J::s("un"));
                o.set(
                    "op",
                    J::s(match op {
                        UnOp::Not => "Not",
                        UnOp::Neg => "Neg",
                        UnOp::PtrMetadata => "PtrMetadata",
                    }),
                );
                o.set("x", self.operand(x));
            }
            Rvalue::Discriminant(p) => {
                o.set("k", J::s("discr"));
                o.set("place", self.place(p));
                // variant table of the enum
                let pty = p.ty(&self.body.local_decls, self.tcx).ty;
                if let ty::Adt(adt, _) = pty.kind() {
                    if adt.is_enum() {
                        let mut vs = Vec::new();
                        for (vi, d) in adt.discriminants(self.tcx) {
                            let mut v = J::obj();
                            v.set("name", J::s(adt.variant(vi).name.as_str()));
                            v.set("val", J::s(&format!("{}", d.val)));
                            vs.push(v);
                        }
                        o.set("variants", J::Arr(vs));
                        o.set("adt", J::s(&path_str(self.tcx, adt.did())));
                    }
                }
            }
            Rvalue::Aggregate(ak, ops) => {
                o.set("k", J::s("agg"));
                match &**ak {
                    AggregateKind::Array(t) => {
                        o.set("ak", J::s("array"));
                        o.set("elem_ty", J::s(&ty_str(*t)));
                    }
                    AggregateKind::Tuple => o.set("ak", J::s("tuple")),
                    AggregateKind::Adt(did, vi, _, _, _) => {
                        o.set("ak", J::s("adt"));
                        o.set("adt", J::s(&path_str(self.tcx, *did)));
                        let adt = self.tcx.adt_def(*did);
                        let v = adt.variant(*vi);
                        o.set("variant", J::s(v.name.as_str()));
                        o.set(
                            "fields",
                            J::Arr(v.fields.iter().map(|f| J::s(f.name.as_str())).collect()),
                        );
                    }
                    AggregateKind::Closure(did, _) => {
                        o.set("ak", J::s("closure"));
                        o.set("closure", J::s(&path_str(self.tcx, *did)));
                        let names = self.tcx.closure_saved_names_of_captured_variables(*did);
                        o.set("fields", J::Arr(names.iter().map(|s| J::s(s.as_str())).collect()));
                    }
                    other => {
                        o.set("ak", J::s("other"));
                        o.set("dbg", J::s(&format!("{:?}", other)));
                    }
                }
                o.set("ops", J::Arr(ops.iter().map(|x| self.operand(x)).collect()));
            }
            Rvalue::CopyForDeref(p) => {
                o.set("k", J::s("use"));
                let mut c = J::obj();
                c.set("k", J::s("copy"));
                c.set("place", self.place(p));
                o.set("x", c);
            }
            other => {
                o.set("k", J::s("other"));
                o.set("dbg", J::s(&format!("{:?}", other)));
            }
        }
        o
    }

    fn body_json(&self, name: &str, kind: &str, promoted: Option<usize>) -> J {
        let tcx = self.tcx;
        let body = self.body;
        let mut o = J::obj();
        o.set("name", J::s(name));
        o.set("kind", J::s(kind));
        if let Some(p) = promoted {
            o.set("promoted", J::n(p as i128));
        }
        o.set("span", J::s(&span_str(tcx, body.span)));
        o.set("arg_count", J::n(body.arg_count as i128));
        let mut locals = Vec::new();
        for (_l, d) in body.local_decls.iter_enumerated() {
            let mut lo = J::obj();
            lo.set("ty", J::s(&ty_str(d.ty)));
            lo.set("mut", J::b(d.mutability.is_mut()));
            locals.push(lo);
        }
        o.set("locals", J::Arr(locals));
        let mut dbg = Vec::new();
        for v in &body.var_debug_info {
            let mut d = J::obj();
            d.set("name", J::s(v.name.as_str()));
            match &v.value {
                mir::VarDebugInfoContents::Place(p) => d.set("place", self.place(p)),
                mir::VarDebugInfoContents::Const(c) => d.set("const", self.konst(c)),
            }
            if let Some(a) = v.argument_index {
                d.set("arg", J::n(a as i128));
            }
            dbg.push(d);
        }
        o.set("debug", J::Arr(dbg));
        let mut blocks = Vec::new();
        for (_bb, data) in body.basic_blocks.iter_enumerated() {
            let mut b = J::obj();
            b.set("cleanup", J::b(data.is_cleanup));
            let mut stmts = Vec::new();
            for st in &data.statements {
                let sp = span_str(tcx, st.source_info.span);
                match &st.kind {
                    StatementKind::Assign(bx) => {
                        let (p, rv) = &**bx;
                        let mut s = J::obj();
                        s.set("k", J::s("assign"));
                        s.set("place", self.place(p));
                        s.set("rv", self.rvalue(rv));
                        s.set("span", J::s(&sp));
                        s.set("exp", J::b(st.source_info.span.from_expansion()));
                        stmts.push(s);
                    }
                    StatementKind::SetDiscriminant { place, variant_index } => {
                        let mut s = J::obj();
                        s.set("k", J::s("setdiscr"));
                        s.set("place", self.place(place));
                        s.set("variant", J::n(variant_index.as_usize() as i128));
                        s.set("span", J::s(&sp));
                        stmts.push(s);
                    }
                    StatementKind::StorageDead(l) => {
                        let mut s = J::obj();
                        s.set("k", J::s("dead"));
                        s.set("l", J::n(l.as_usize() as i128));
                        stmts.push(s);
                    }
                    StatementKind::StorageLive(l) => {
                        let mut s = J::obj();
                        s.set("k", J::s("live"));
                        s.set("l", J::n(l.as_usize() as i128));
                        stmts.push(s);
                    }
                    _ => {}
                }
            }
            b.set("stmts", J::Arr(stmts));
            let term = data.terminator();
            let mut t = J::obj();
            t.set("span", J::s(&span_str(tcx, term.source_info.span)));
            t.set("exp", J::b(term.source_info.span.from_expansion()));
            match &term.kind {
                TerminatorKind::Goto { target } => {
                    t.set("k", J::s("goto"));
                    t.set("target", J::n(target.as_usize() as i128));
                }
                TerminatorKind::SwitchInt { discr, targets } => {
                    t.set("k", J::s("switch"));
                    t.set("discr", self.operand(discr));
                    let mut ts = Vec::new();
                    for (v, bb) in targets.iter() {
                        ts.push(J::Arr(vec![J::s(&format!("{}", v)), J::n(bb.as_usize() as i128)]));
                    }
                    t.set("targets", J::Arr(ts));
                    t.set("otherwise", J::n(targets.otherwise().as_usize() as i128));
                }
                TerminatorKind::UnwindResume => t.set("k", J::s("resume")),
                TerminatorKind::UnwindTerminate(_) => t.set("k", J::s("terminate")),
                TerminatorKind::Return => t.set("k", J::s("return")),
                TerminatorKind::Unreachable => t.set("k", J::s("unreachable")),
                TerminatorKind::Drop { place, target, unwind, .. } => {
                    t.set("k", J::s("drop"));
                    t.set("place", self.place(place));
                    t.set("target", J::n(target.as_usize() as i128));
                    if let mir::UnwindAction::Cleanup(bb) = unwind {
                        t.set("unwind", J::n(bb.as_usize() as i128));
                    }
                }
                TerminatorKind::Call { func, args, destination, target, unwind, fn_span, .. } => {
                    t.set("k", J::s("call"));
                    let fty = func.ty(&body.local_decls, tcx);
                    match fty.kind() {
                        ty::FnDef(did, ga) => {
                            t.set("fn", self.fn_ref(*did, ga));
                        }
                        _ => {
                            t.set("indirect", self.operand(func));
                            t.set("fn_ty", J::s(&ty_str(fty)));
                        }
                    }
                    t.set("args", J::Arr(args.iter().map(|a| self.operand(&a.node)).collect()));
                    t.set("dest", self.place(destination));
                    if let Some(bb) = target {
                        t.set("target", J::n(bb.as_usize() as i128));
                    }
                    if let mir::UnwindAction::Cleanup(bb) = unwind {
                        t.set("unwind", J::n(bb.as_usize() as i128));
                    }
                    t.set("fn_span", J::s(&span_str(tcx, *fn_span)));
                }
                TerminatorKind::Assert { cond, expected, msg, target, unwind } => {
                    t.set("k", J::s("assert"));
                    t.set("cond", self.operand(cond));
                    t.set("expected", J::b(*expected));
                    let mut m = J::obj();
                    match &**msg {
                        AssertKind::BoundsCheck { len, index } => {
                            m.set("kind", J::s("BoundsCheck"));
                            m.set("len", self.operand(len));
                            m.set("index", self.operand(index));
                        }
                        AssertKind::Overflow(op, l, r) => {
                            m.set("kind", J::s("Overflow"));
                            m.set("op", J::s(binop_name(*op)));
                            m.set("l", self.operand(l));
                            m.set("r", self.operand(r));
                        }
                        AssertKind::OverflowNeg(x) => {
                            m.set("kind", J::s("OverflowNeg"));
                            m.set("x", self.operand(x));
                        }
                        AssertKind::DivisionByZero(x) => {
                            m.set("kind", J::s("DivisionByZero"));
                            m.set("x", self.operand(x));
                        }
                        AssertKind::RemainderByZero(x) => {
                            m.set("kind", J::s("RemainderByZero"));
                            m.set("x", self.operand(x));
                        }
                        other => {
                            m.set("kind", J::s("Other"));
                            m.set("dbg", J::s(&format!("{:?}", other)));
                        }
                    }
                    t.set("msg", m);
                    t.set("target", J::n(target.as_usize() as i128));
                    if let mir::UnwindAction::Cleanup(bb) = unwind {
                        t.set("unwind", J::n(bb.as_usize() as i128));
                    }
                }
                TerminatorKind::FalseEdge { real_target, .. } => {
                    t.set("k", J::s("goto"));
                    t.set("target", J::n(real_target.as_usize() as i128));
                }
                TerminatorKind::FalseUnwind { real_target, .. } => {
                    t.set("k", J::s("goto"));
                    t.set("target", J::n(real_target.as_usize() as i128));
                }
                other => {
                    t.set("k", J::s("other"));
                    t.set("dbg", J::s(&format!("{:?}", other)));
                }
            }
            b.set("term", t);
            blocks.push(b);
        }
        o.set("blocks", J::Arr(blocks));
        o
    }
}

fn binop_name(op: BinOp) -> &'static str {
    match op {
        BinOp::Add => "Add",
        BinOp::AddUnchecked => "AddUnchecked",
        BinOp::AddWithOverflow => "AddWithOverflow",
        BinOp::Sub => "Sub",
        BinOp::SubUnchecked => "SubUnchecked",
        BinOp::SubWithOverflow => "SubWithOverflow",
        BinOp::Mul => "Mul",
        BinOp::MulUnchecked => "MulUnchecked",
        BinOp::MulWithOverflow => "MulWithOverflow",
        BinOp::Div => "Div",
        BinOp::Rem => "Rem",
        BinOp::BitXor => "BitXor",
        BinOp::BitAnd => "BitAnd",
        BinOp::BitOr => "BitOr",
        BinOp::Shl => "Shl",
        BinOp::ShlUnchecked => "ShlUnchecked",
        BinOp::Shr => "Shr",
        BinOp::ShrUnchecked => "ShrUnchecked",
        BinOp::Eq => "Eq",
        BinOp::Lt => "Lt",
        BinOp::Le => "Le",
        BinOp::Ne => "Ne",
        BinOp::Ge => "Ge",
        BinOp::Gt => "Gt",
        BinOp::Cmp => "Cmp",
        BinOp::Offset => "Offset",
    }
}

fn export<'tcx>(tcx: TyCtxt<'tcx>) -> J {
    let mut root = J::obj();
    root.set("crate", J::s(tcx.crate_name(LOCAL_CRATE).as_str()));
    root.set("nonce", J::s(&std::env::var("TWFACTS_NONCE").unwrap_or_default()));
    root.set("config", J::s(&std::env::var("TWFACTS_CONFIG").unwrap_or_default()));

    // crate-level attributes: lint levels for unsafe_code
    let mut attrs = Vec::new();
    {
        let store = rustc_lint::unerased_lint_store(tcx.sess);
        for lint in store.get_lints() {
            if lint.name_lower() == "unsafe_code" {
                let lvl = tcx.lint_level_at_node(lint, rustc_hir::CRATE_HIR_ID);
                attrs.push(J::s(&format!("unsafe_code={:?}", lvl.level)));
            }
        }
    }
    root.set("crate_lints", J::Arr(attrs));

    // items
    let mut items = Vec::new();
    for id in tcx.hir_crate_items(()).definitions() {
        let did = id.to_def_id();
        let kind = tcx.def_kind(did);
        let mut it = J::obj();
        it.set("path", J::s(&path_str(tcx, did)));
        it.set("kind", J::s(&format!("{:?}", kind)));
        it.set("span", J::s(&span_str(tcx, tcx.def_span(did))));
        match kind {
            DefKind::Fn | DefKind::AssocFn => {
                it.set("vis", J::s(&format!("{:?}", tcx.visibility(did))));
                let sig = tcx.fn_sig(did).instantiate_identity().skip_norm_wip();
                it.set("sig", J::s(&with_no_trimmed_paths!(format!("{}", sig))));
                let g = tcx.generics_of(did);
                let mut gs = Vec::new();
                for p in &g.own_params {
                    gs.push(J::s(&format!("{}:{}", p.name, match p.kind {
                        ty::GenericParamDefKind::Lifetime => "lifetime",
                        ty::GenericParamDefKind::Type { .. } => "type",
                        ty::GenericParamDefKind::Const { .. } => "const",
                    })));
                }
                it.set("generics", J::Arr(gs));
                let preds = tcx.predicates_of(did);
                let mut ps = Vec::new();
                for (c, _) in preds.predicates {
                    ps.push(J::s(&with_no_trimmed_paths!(format!("{}", c))));
                }
                it.set("predicates", J::Arr(ps));
                if let Some(tr) = tcx.trait_of_assoc(did) {
                    it.set("trait", J::s(&path_str(tcx, tr)));
                }
                if let Some(imp) = tcx.impl_of_assoc(did) {
                    let self_ty = tcx.type_of(imp).instantiate_identity().skip_norm_wip();
                    it.set("self_ty", J::s(&ty_str(self_ty)));
                    if let Some(tr) = tcx.impl_opt_trait_ref(imp) {
                        it.set("impl_trait", J::s(&with_no_trimmed_paths!(format!("{}", tr.instantiate_identity().skip_norm_wip()))));
                    }
                }
            }
            DefKind::Struct | DefKind::Enum => {
                it.set("vis", J::s(&format!("{:?}", tcx.visibility(did))));
                let adt = tcx.adt_def(did);
                let mut vs = Vec::new();
                for v in adt.variants() {
                    let mut vo = J::obj();
                    vo.set("name", J::s(v.name.as_str()));
                    let mut fs = Vec::new();
                    for f in &v.fields {
                        let mut fo = J::obj();
                        fo.set("name", J::s(f.name.as_str()));
                        fo.set("ty", J::s(&ty_str(tcx.type_of(f.did).instantiate_identity().skip_norm_wip())));
                        fs.push(fo);
                    }
                    vo.set("fields", J::Arr(fs));
                    vs.push(vo);
                }
                it.set("variants", J::Arr(vs));
            }
            DefKind::Trait => {
                it.set("vis", J::s(&format!("{:?}", tcx.visibility(did))));
                let mut sup = Vec::new();
                for (c, _) in tcx.explicit_super_predicates_of(did).iter_identity_copied().map(|x| x.skip_norm_wip()) {
                    sup.push(J::s(&with_no_trimmed_paths!(format!("{}", c))));
                }
                it.set("super", J::Arr(sup));
                let mut ai = Vec::new();
                for a in tcx.associated_items(did).in_definition_order() {
                    let mut ao = J::obj();
                    ao.set("name", J::s(a.name().as_str()));
                    ao.set("kind", J::s(&format!("{:?}", a.kind).split(['{', '(', ' ']).next().unwrap_or("").to_string()));
                    if a.is_fn() {
                        let sig = tcx.fn_sig(a.def_id).instantiate_identity().skip_norm_wip();
                        ao.set("sig", J::s(&with_no_trimmed_paths!(format!("{}", sig))));
                        ao.set("has_default", J::b(a.defaultness(tcx).has_value()));
                    }
                    ai.push(ao);
                }
                it.set("assoc", J::Arr(ai));
            }
            DefKind::Const { .. } | DefKind::Static { .. } => {
                it.set("ty", J::s(&ty_str(tcx.type_of(did).instantiate_identity().skip_norm_wip())));
            }
            _ => {}
        }
        items.push(it);
    }
    root.set("items", J::Arr(items));

    // bodies
    let mut bodies = Vec::new();
    for ldid in tcx.mir_keys(()) {
        let did = ldid.to_def_id();
        let kind = tcx.def_kind(did);
        let kind_s = match kind {
            DefKind::Fn => "fn",
            DefKind::AssocFn => "assoc_fn",
            DefKind::Closure => "closure",
            DefKind::Const { .. } | DefKind::AssocConst { .. } => "const",
            DefKind::Static { .. } => "static",
            DefKind::Ctor(..) => "ctor",
            DefKind::AnonConst | DefKind::InlineConst => "anon_const",
            _ => "other",
        };
        if kind_s == "ctor" || kind_s == "other" {
            continue;
        }
        let name = path_str(tcx, did);
        let is_const_ctx = matches!(kind_s, "const" | "static" | "anon_const");
        let body: &Body<'tcx> = if is_const_ctx {
            tcx.mir_for_ctfe(did)
        } else {
            tcx.optimized_mir(did)
        };
        let ex = Ex { tcx, body, owner: did };
        let mut bj = ex.body_json(&name, kind_s, None);
        if kind_s == "closure" {
            let parent = tcx.parent(did);
            bj.set("parent", J::s(&path_str(tcx, parent)));
            let names = tcx.closure_saved_names_of_captured_variables(did);
            bj.set("upvars", J::Arr(names.iter().map(|s| J::s(s.as_str())).collect()));
        }
        if matches!(kind, DefKind::Fn | DefKind::AssocFn) {
            bj.set("vis", J::s(&format!("{:?}", tcx.visibility(did))));
            if let Some(imp) = tcx.impl_of_assoc(did) {
                let self_ty = tcx.type_of(imp).instantiate_identity().skip_norm_wip();
                bj.set("self_ty", J::s(&ty_str(self_ty)));
                if let Some(tr) = tcx.impl_opt_trait_ref(imp) {
                    bj.set("impl_trait", J::s(&with_no_trimmed_paths!(format!("{}", tr.instantiate_identity().skip_norm_wip()))));
                }
            }
            bj.set("item_name", J::s(tcx.item_name(did).as_str()));
            // derive-generated?
            bj.set("automatically_derived", J::b(
                tcx.impl_of_assoc(did).map(|i| tcx.is_automatically_derived(i)).unwrap_or(false)));
        }
        bodies.push(bj);
        {
            let proms = tcx.promoted_mir(did);
            for (pi, pb) in proms.iter_enumerated() {
                let ex = Ex { tcx, body: pb, owner: did };
                let mut pj = ex.body_json(&name, "promoted", Some(pi.as_usize()));
                pj.set("parent", J::s(&name));
                bodies.push(pj);
            }
        }
    }
    root.set("bodies", J::Arr(bodies));
    root
}

extern crate rustc_lint;

impl rustc_driver::Callbacks for Cb {
    fn after_analysis<'tcx>(&mut self, _c: &Compiler, tcx: TyCtxt<'tcx>) -> Compilation {
        let krate = tcx.crate_name(LOCAL_CRATE);
        let want = std::env::var("TWFACTS_CRATE").unwrap_or_else(|_| "textwrap".into());
        if krate.as_str() != want {
            return Compilation::Continue;
        }
        let out = match std::env::var("TWFACTS_OUT") {
            Ok(o) => o,
            Err(_) => return Compilation::Continue,
        };
        let root = export(tcx);
        let mut s = String::new();
        root.write(&mut s);
        let _ = writeln!(s);
        let tmp = format!("{}.tmp.{}", out, std::process::id());
        std::fs::write(&tmp, s).expect("write facts");
        std::fs::rename(&tmp, &out).expect("rename facts");
        Compilation::Continue
    }
}

fn main() {
    let mut args: Vec<String> = std::env::args().collect();
    // RUSTC_WORKSPACE_WRAPPER passes: <wrapper> <rustc> <args...>; drop argv[1].
    if args.len() > 1 {
        args.remove(1);
    }
    args[0] = "rustc".into();
    rustc_driver::run_compiler(&args, &mut Cb);
}

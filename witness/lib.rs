//! Compile-time witnesses for type-level clauses (DESIGN.md 4.8).  Every item is
//! a doc test that is only *compiled* (`no_run`) or required *not* to compile
//! (`compile_fail,E0xxx`); nothing from textwrap is executed.  Each failing twin
//! differs from its compiling twin only by the offending line.

/// W1-ok (C01.R8): the lines returned by `wrap` outlive the options (they borrow from the text only).
/// ```no_run
/// let text = String::from("some text to wrap");
/// let lines = {
///     let indent = String::from("> ");
///     let options = textwrap::Options::new(10).initial_indent(&indent).break_words(false);
///     textwrap::wrap(&text, &options)
/// };
/// println!("{:?}", lines);
/// ```
pub struct W1Ok;

/// W1-ok2 (C01.R8): lines of `wrap(&text, width)` borrow from `text`: using them while `text` lives compiles.
/// ```no_run
/// let text = String::from("some text to wrap");
/// let lines = textwrap::wrap(&text, 10);
/// println!("{:?}", lines);
/// drop(text);
/// ```
pub struct W1Ok2;

/// W1-fail (C01.R8): the returned lines borrow from `text`; dropping it first must not compile.
/// ```compile_fail,E0505
/// let text = String::from("some text to wrap");
/// let lines = textwrap::wrap(&text, 10);
/// drop(text);
/// println!("{:?}", lines);
/// ```
pub struct W1Fail;

/// W2-ok (C06.R1): the lines of `wrap_first_fit` outlive the `line_widths` temporary.
/// ```no_run
/// use textwrap::core::Word;
/// use textwrap::wrap_algorithms::wrap_first_fit;
/// let words = vec![Word::from("a "), Word::from("b")];
/// let lines = {
///     let widths = vec![10.0];
///     wrap_first_fit(&words, &widths)
/// };
/// println!("{}", lines.len());
/// ```
pub struct W2Ok;

/// W2-fail (C06.R1): the lines are sub-slices of the fragments: they cannot outlive them.
/// ```compile_fail,E0597
/// use textwrap::core::Word;
/// use textwrap::wrap_algorithms::wrap_first_fit;
/// let widths = vec![10.0];
/// let lines = {
///     let words = vec![Word::from("a "), Word::from("b")];
///     wrap_first_fit(&words, &widths)
/// };
/// println!("{}", lines.len());
/// ```
pub struct W2Fail;

/// W3-fail (C06.R1): a `Fragment` cannot be produced out of thin air by the algorithms: the trait offers no constructor.
/// ```compile_fail,E0599
/// use textwrap::core::{Fragment, Word};
/// fn make<T: Fragment>() -> T { T::default() }
/// let _w: Word = make();
/// ```
pub struct W3Fail;

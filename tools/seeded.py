#!/usr/bin/env python3
"""Confirm and archive independently seeded changes, and run the checks against them.

  tools/seeded.py import <prop> <seeds-dir> <k>   verify seedK.diff/demoK.rs from a sub-agent, store as seeded/<prop>-sK/
  tools/seeded.py run [id-substring]              apply every archived patch to a scratch copy and run all 20 checks

Verification (import): on a scratch copy of /repo's HEAD: patch applies; `cargo test --offline` passes with the
patch (existing suite); the demo fails with the patch and passes without it.  Nothing is ever applied to /repo.
"""
import json
import os
import shutil
import subprocess
import sys

VERIF = os.path.dirname(os.path.dirname(os.path.abspath(__file__)))
sys.path.insert(0, VERIF)
SCR = "/var/tmp/scratch/seedrepo"
TGT = "/var/tmp/scratch/seed-target"
ENV = dict(os.environ, CARGO_NET_OFFLINE="true", CARGO_TARGET_DIR=TGT)
ALL = ["C%02d" % i for i in range(1, 21)]


def fresh():
    if os.path.exists(SCR):
        shutil.rmtree(SCR)
    subprocess.run(["git", "clone", "-q", "/repo", SCR], check=True)


def sh(cmd, cwd=SCR):
    return subprocess.run(cmd, cwd=cwd, env=ENV, capture_output=True, text=True)


def cargo_test(args=()):
    r = sh(["cargo", "test", "--offline", "-q"] + list(args))
    return r.returncode == 0, (r.stdout + r.stderr)[-1500:]


def do_import(prop, sdir, k):
    patch = os.path.join(sdir, "seed%s.diff" % k)
    demo = os.path.join(sdir, "demo%s.rs" % k)
    note = os.path.join(sdir, "note%s.txt" % k)
    tag = prop
    if os.path.exists(note):
        import re as _re
        m_ = _re.search(r"PROPERTY:\s*(C\d\d)", open(note).read())
        if m_:
            tag, prop = prop, m_.group(1)
    sid = "%s-%s-s%s" % (prop, tag, k) if tag != prop else "%s-s%s" % (prop, k)
    n = 1
    while os.path.exists(os.path.join(VERIF, "seeded", sid)):
        n += 1
        sid = "%s-s%s-%d" % (prop, k, n)
    fresh()
    rec = {"id": sid, "property": prop, "source": "independent sub-agent given only the property text and a scratch worktree"}
    r = sh(["git", "apply", "--check", patch])
    if r.returncode != 0:
        print("patch does not apply:", r.stderr)
        return 1
    sh(["git", "apply", patch])
    ok, out = cargo_test()
    rec["existing_suite_passes_with_change"] = ok
    ok2, out2 = cargo_test(["--no-default-features"])
    rec["existing_suite_passes_no_default_features"] = ok2
    shutil.copy2(demo, os.path.join(SCR, "tests", "seed_demo.rs"))
    okd, outd = cargo_test(["--test", "seed_demo"])
    cfg_args = []
    if okd:
        # maybe it only manifests without the default features
        okd, outd = cargo_test(["--test", "seed_demo", "--no-default-features"])
        if not okd:
            cfg_args = ["--no-default-features"]
            rec["manifests_only_with"] = "--no-default-features"
    rec["demo_fails_with_change"] = not okd
    sh(["git", "checkout", "--", "src"])
    oku, outu = cargo_test(["--test", "seed_demo"] + cfg_args)
    rec["demo_passes_without_change"] = oku
    rec["ran"] = ["git apply seed.diff", "cargo test --offline", "cargo test --offline --no-default-features",
                  "cargo test --offline --test seed_demo (with change: must fail)",
                  "git checkout -- src; cargo test --offline --test seed_demo (must pass)"]
    rec["needs_to_manifest"] = open(note).read().strip() if os.path.exists(note) else ""
    good = ok and (not okd) and oku
    rec["confirmed"] = good
    print(json.dumps({k_: v for k_, v in rec.items() if k_ not in ("needs_to_manifest", "ran")}, indent=1))
    if not good:
        print("NOT CONFIRMED; demo output with change:\n", outd[-800:], "\nwithout:\n", outu[-500:], "\nsuite:\n", out[-500:])
        return 1
    d = os.path.join(VERIF, "seeded", sid)
    os.makedirs(d, exist_ok=True)
    shutil.copy2(patch, os.path.join(d, "patch.diff"))
    shutil.copy2(demo, os.path.join(d, "demo.rs"))
    with open(os.path.join(d, "meta.json"), "w") as fh:
        json.dump(rec, fh, indent=1)
    print("stored", d)
    return 0


def run_checks(only=None):
    sdir = os.path.join(VERIF, "seeded")
    results = {}
    for sid in sorted(os.listdir(sdir)):
        if only and only not in sid:
            continue
        d = os.path.join(sdir, sid)
        meta = json.load(open(os.path.join(d, "meta.json")))
        fresh()
        r = sh(["git", "apply", os.path.join(d, "patch.diff")])
        if r.returncode != 0:
            print(sid, "PATCH NO LONGER APPLIES")
            continue
        det = {}
        for prop in ALL:
            c = subprocess.run([sys.executable, "-c",
                                "import sys; sys.path.insert(0,%r); sys.setrecursionlimit(20000)\n"
                                "from twlint import facts as F; F.REPO=%r\n"
                                "from twlint.runner import run_property\n"
                                "mod,rep,cfgs,metas,wall=run_property(%r,'quick',%r)\n"
                                "from twlint.runner import load_known; K={k for p_,k,t in load_known() if p_==%r}\n"
                                "import json; print(json.dumps(sorted({v.rule for v in rep.violations if v.key not in K})))" % (VERIF, SCR, prop, SCR, prop)],
                               cwd=VERIF, capture_output=True, text=True)
            try:
                rules = json.loads(c.stdout.strip().splitlines()[-1])
            except Exception:
                rules = ["ERROR: " + c.stderr[-200:]]
            if rules:
                det[prop] = rules
        own = meta["property"]
        status = "DETECTED" if own in det else ("detected-by-other" if det else "MISSED")
        meta["detected_by"] = det
        meta["own_property_check_detects"] = own in det
        with open(os.path.join(d, "meta.json"), "w") as fh:
            json.dump(meta, fh, indent=1)
        results[sid] = (status, det)
        print(sid, status, det)
    missed = [s for s, (st, _d) in results.items() if st != "DETECTED"]
    print("\n%d seeded changes, %d not detected by their own property's check: %s" % (len(results), len(missed), missed))
    if os.path.exists(SCR):
        shutil.rmtree(SCR)


def do_refactor(name, sdir, k):
    """Archive a behaviour-preserving edit after confirming the suite passes, then require silence of all checks."""
    patch = os.path.join(sdir, "refactor%s.diff" % k)
    note = os.path.join(sdir, "rnote%s.txt" % k)
    rid = "%s-r%s" % (name, k)
    fresh()
    r = sh(["git", "apply", "--check", patch])
    if r.returncode != 0:
        print(rid, "patch does not apply:", r.stderr[:200])
        return 1
    sh(["git", "apply", patch])
    ok, out = cargo_test()
    ok2, out2 = cargo_test(["--no-default-features"])
    if not (ok and ok2):
        print(rid, "suite fails with the refactoring: not archived")
        return 1
    d = os.path.join(VERIF, "refactors", rid)
    os.makedirs(d, exist_ok=True)
    shutil.copy2(patch, os.path.join(d, "patch.diff"))
    meta = {"id": rid, "source": "independent sub-agent asked for behaviour-preserving edits",
            "argument": open(note).read().strip() if os.path.exists(note) else "", "suite_passes": True}
    alarms = run_all_checks_on_scratch()
    meta["alarms"] = alarms
    with open(os.path.join(d, "meta.json"), "w") as fh:
        json.dump(meta, fh, indent=1)
    print(rid, "QUIET" if not alarms else "ALARM %s" % alarms)
    return 0


def run_all_checks_on_scratch():
    det = {}
    for prop in ALL:
        c = subprocess.run([sys.executable, "-c",
                            "import sys; sys.path.insert(0,%r); sys.setrecursionlimit(20000)\n"
                            "from twlint import facts as F; F.REPO=%r\n"
                            "from twlint.runner import run_property\n"
                            "mod,rep,cfgs,metas,wall=run_property(%r,'quick',%r)\n"
                            "from twlint.runner import load_known; K={k for p_,k,t in load_known() if p_==%r}\n"
                                "import json; print(json.dumps(sorted({v.rule+': '+v.message[:160] for v in rep.violations if v.key not in K})))" % (VERIF, SCR, prop, SCR, prop)],
                           cwd=VERIF, capture_output=True, text=True)
        try:
            rules = json.loads(c.stdout.strip().splitlines()[-1])
        except Exception:
            rules = ["ERROR: " + c.stderr[-300:]]
        if rules:
            det[prop] = rules
    return det


def rerun_refactors(only=None):
    rdir = os.path.join(VERIF, "refactors")
    bad = []
    for rid in sorted(os.listdir(rdir)):
        if only and only not in rid:
            continue
        d = os.path.join(rdir, rid)
        fresh()
        if sh(["git", "apply", os.path.join(d, "patch.diff")]).returncode != 0:
            print(rid, "PATCH NO LONGER APPLIES")
            continue
        alarms = run_all_checks_on_scratch()
        meta = json.load(open(os.path.join(d, "meta.json")))
        meta["alarms"] = alarms
        json.dump(meta, open(os.path.join(d, "meta.json"), "w"), indent=1)
        print(rid, "QUIET" if not alarms else "ALARM %s" % {k: [x[:200] for x in v] for k, v in alarms.items()})
        if alarms:
            bad.append(rid)
    print("\n%d refactorings raise an alarm: %s" % (len(bad), bad))


if __name__ == "__main__":
    if len(sys.argv) >= 5 and sys.argv[1] == "refactor":
        sys.exit(do_refactor(sys.argv[2], sys.argv[3], sys.argv[4]))
    elif len(sys.argv) >= 2 and sys.argv[1] == "run-refactors":
        rerun_refactors(sys.argv[2] if len(sys.argv) > 2 else None)
    elif len(sys.argv) >= 5 and sys.argv[1] == "import":
        sys.exit(do_import(sys.argv[2], sys.argv[3], sys.argv[4]))
    elif len(sys.argv) >= 2 and sys.argv[1] == "run":
        run_checks(sys.argv[2] if len(sys.argv) > 2 else None)
    else:
        print(__doc__)

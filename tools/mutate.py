#!/usr/bin/env python3
"""Sensitivity self-test: apply each mutant of mutants/corpus.py to a scratch copy
of /repo, check that it still compiles (cargo check), run the named property
checks on the copy and require a violation.  Static: runs the analyser only.

usage: tools/mutate.py [--only ID-substring] [--props C06,C07] [--tests]
"""
import json
import os
import shutil
import subprocess
import sys

VERIF = os.path.dirname(os.path.dirname(os.path.abspath(__file__)))
sys.path.insert(0, VERIF)
from mutants.corpus import M  # noqa: E402
from mutants.equiv import E  # noqa: E402

SCRATCH = "/var/tmp/scratch/mutrepo"


def sync():
    os.makedirs(SCRATCH, exist_ok=True)
    for item in ("src", "Cargo.toml", "Cargo.lock", "tests", "README.md", "CHANGELOG.md", "examples", "benchmarks"):
        src = os.path.join("/repo", item)
        dst = os.path.join(SCRATCH, item)
        if os.path.isdir(src):
            if os.path.exists(dst):
                shutil.rmtree(dst)
            shutil.copytree(src, dst)
        elif os.path.exists(src):
            shutil.copy2(src, dst)


def main():
    only = None
    props_filter = None
    run_tests = False
    equiv = "--equiv" in sys.argv
    args = sys.argv[1:]
    i = 0
    while i < len(args):
        if args[i] == "--only":
            only = args[i + 1]
            i += 2
        elif args[i] == "--props":
            props_filter = set(args[i + 1].split(","))
            i += 2
        elif args[i] == "--tests":
            run_tests = True
            i += 1
        else:
            i += 1
    res = []
    env = dict(os.environ, CARGO_NET_OFFLINE="true")
    pool = M
    if equiv:
        pool = [dict(x, props=["C%02d" % i for i in range(1, 21)]) for x in E]
    for mu in pool:
        if only and only not in mu["id"]:
            continue
        if props_filter and not (set(mu["props"]) & props_filter):
            continue
        sync()
        p = os.path.join(SCRATCH, mu["file"])
        s = open(p).read()
        if s.count(mu["old"]) != 1:
            res.append((mu["id"], "SKIP (pattern matches %d times)" % s.count(mu["old"]), {}))
            print(res[-1])
            continue
        open(p, "w").write(s.replace(mu["old"], mu["new"]))
        r = subprocess.run(["cargo", "check", "--offline", "--lib", "-q"], cwd=SCRATCH, env=dict(env, CARGO_TARGET_DIR="/var/tmp/scratch/mut-target"),
                           capture_output=True, text=True)
        if r.returncode != 0:
            res.append((mu["id"], "NOCOMPILE", {}))
            print(res[-1], r.stderr[-300:])
            continue
        tests = None
        if run_tests:
            t = subprocess.run(["cargo", "test", "--offline", "-q", "--lib", "--tests"], cwd=SCRATCH,
                               env=dict(env, CARGO_TARGET_DIR="/var/tmp/scratch/mut-target"), capture_output=True, text=True)
            tests = "tests-pass" if t.returncode == 0 else "tests-FAIL"
        det = {}
        for prop in mu["props"]:
            if props_filter and prop not in props_filter:
                continue
            if not os.path.exists(os.path.join(VERIF, "twlint", "props", prop + ".py")):
                det[prop] = "n/a"
                continue
            c = subprocess.run([os.path.join(VERIF, "check"), prop, "--repo", SCRATCH, "--replay", "/dev/null"], cwd=VERIF,
                               capture_output=True, text=True)
            # --replay /dev/null: do not overwrite evidence; violations filtered by key None -> use plain run instead
            c = subprocess.run([sys.executable, "-c",
                                "import sys; sys.path.insert(0,%r); sys.setrecursionlimit(20000)\n"
                                "from twlint import facts as F; F.REPO=%r\n"
                                "from twlint.runner import run_property\n"
                                "mod,rep,cfgs,metas,wall=run_property(%r,'quick',%r)\n"
                                "from twlint.runner import load_known; K={k for p_,k,t in load_known() if p_==%r}\n"
                                "import json; print(json.dumps([v.to_json() for v in rep.violations if v.key not in K]))" % (VERIF, SCRATCH, prop, SCRATCH, prop)],
                               cwd=VERIF, capture_output=True, text=True)
            try:
                vs = json.loads(c.stdout.strip().splitlines()[-1])
            except Exception:
                det[prop] = "ERROR " + c.stderr[-300:]
                continue
            det[prop] = "DETECTED %s" % sorted({v["rule"] for v in vs}) if vs else "MISSED"
        res.append((mu["id"], tests or "compiles", det))
        print(mu["id"], tests or "compiles", det)
    if equiv:
        alarms = [r for r in res if any(str(v).startswith("DETECTED") for v in r[2].values())]
        print("\n%d equivalent edits, %d raise an alarm" % (len(res), len(alarms)))
        for r in alarms:
            print("  FALSE ALARM:", r[0], {k: v for k, v in r[2].items() if str(v).startswith("DETECTED")})
        sync()
        return
    missed = [r for r in res if any(v == "MISSED" for v in r[2].values())]
    print("\n%d mutants, %d with a miss" % (len(res), len(missed)))
    for r in missed:
        print("  MISSED:", r[0], r[2])
    sync()


if __name__ == "__main__":
    main()

#!/usr/bin/env python3
"""Regenerate /verif/MANIFEST.json from the property modules (single source of truth)."""
import importlib
import json
import os
import sys

VERIF = os.path.dirname(os.path.dirname(os.path.abspath(__file__)))
sys.path.insert(0, VERIF)

NOT_APPLICABLE = {
}


def main():
    checks = []
    na = []
    for i in range(1, 21):
        pid = "C%02d" % i
        path = os.path.join(VERIF, "twlint", "props", pid + ".py")
        if os.path.exists(path) and pid not in NOT_APPLICABLE:
            mod = importlib.import_module("twlint.props." + pid)
            checks.append({
                "property_id": pid,
                "quick_cmd": "./check %s --tier quick" % pid,
                "thorough_cmd": "./check %s --tier thorough" % pid,
                "evidence_file": "/verif/evidence/%s.json" % pid,
                "replay_cmd_template": "./check %s --replay {path}" % pid,
                "engine": "twlint",
                "level_claimed": {"category": "other", "text": mod.LEVEL_TEXT, "design_ref": mod.DESIGN_REF},
                "level_note": mod.LEVEL_NOTE,
                "technique": mod.TECHNIQUE,
            })
        else:
            na.append({"property_id": pid, "reason": NOT_APPLICABLE.get(
                pid, "static rules for this property are designed (DESIGN.md section 6) but not built yet; "
                     "no claim is made until its check exists")})
    man = {
        "version": 1,
        "setup_cmd": "cd /verif && python3 -m twlint.setup",
        "hooks": {
            "guard": "textwrap_verif",
            "enable": "none needed: the checks read /repo's source through a rustc_private driver "
                      "(cargo +nightly check with RUSTC_WORKSPACE_WRAPPER); no instrumentation is compiled in. "
                      "The upstream `--cfg fuzzing` guard is analysed as one more configuration in the thorough tier.",
            "baseline_off_cmd": "cd /repo && cargo test --workspace --no-fail-fast --offline",
            "source_commits": [],
            "add_only": True,
        },
        "engines": [
            {"name": "twfacts", "path": "/verif/twfacts", "serves_properties": [c["property_id"] for c in checks],
             "kind_free_text": "rustc_private driver exporting MIR, resolved callees, constants, signatures per feature configuration"},
            {"name": "twlint", "path": "/verif/twlint", "serves_properties": [c["property_id"] for c in checks],
             "kind_free_text": "static rule layer: on-demand SSA over MIR, dominance/edge-dominance guards, panic/termination "
                               "ledger, chain/accounting/trace/normal-form rules (Python stdlib only)"},
        ],
        "checks": checks,
        "not_applicable": na,
        "notes": "Technique family: static analysis only. Every check re-exports facts from /repo's current working tree "
                 "(cache keyed by a hash of src/, Cargo.toml, Cargo.lock) and never runs textwrap code. Exit 2 = broken check. "
                 "The quick tier analyses the default and no-default-features configurations; the thorough tier analyses all seven "
                 "feature configurations (each default feature alone, all features, --cfg fuzzing) and then runs the sensitivity "
                 "self-test of the check (twlint/selftest.py): every mutant of mutants/corpus.py that names the property is applied "
                 "to a scratch copy of the tree under analysis and must be reported by the same rules; the result is recorded under "
                 "coverage.sensitivity_selftest in the evidence file and never changes the exit code (it is evidence about the "
                 "checker, not about the property).",
    }
    with open(os.path.join(VERIF, "MANIFEST.json"), "w") as fh:
        json.dump(man, fh, indent=1)
    print("wrote MANIFEST.json: %d checks, %d not_applicable" % (len(checks), len(na)))


if __name__ == "__main__":
    main()

"""Control-flow graph utilities over a MIR body (normal edges only).

Panic edges (unwind, failed Assert, diverging calls) are not successors: a
failing Assert or a call without return target ends the path.  Cleanup blocks
are ignored.  Edges into blocks that can never reach `return` *and* contain
no statement (e.g. `unreachable`) are dropped.
"""


class CFG:
    def __init__(self, body):
        self.body = body
        n = len(body.blocks)
        self.n = n
        self.succ = [[] for _ in range(n)]
        self.pred = [[] for _ in range(n)]
        self.edge_label = {}  # (a, b) -> list of labels (switch value str | 'otherwise' | None)
        self.returns = []
        self.dead_ends = []   # diverging terminators (panic calls, unreachable)
        for i, bl in enumerate(body.blocks):
            if bl["cleanup"]:
                continue
            t = bl["term"]
            k = t["k"]
            outs = []
            if k == "goto":
                outs.append((t["target"], None))
            elif k == "switch":
                for v, tb in t["targets"]:
                    outs.append((tb, v))
                outs.append((t["otherwise"], "otherwise"))
            elif k in ("call", "drop", "assert"):
                if "target" in t:
                    outs.append((t["target"], None))
                else:
                    self.dead_ends.append(i)
            elif k == "return":
                self.returns.append(i)
            else:
                self.dead_ends.append(i)
            for tb, lab in outs:
                self.edge_label.setdefault((i, tb), []).append(lab)
                if tb not in self.succ[i]:
                    self.succ[i].append(tb)
        # drop edges to trivially unreachable blocks
        unreachable = set()
        for i, bl in enumerate(body.blocks):
            if bl["cleanup"]:
                continue
            if bl["term"]["k"] == "unreachable" and not any(s["k"] == "assign" for s in bl["stmts"]):
                unreachable.add(i)
        for i in range(n):
            self.succ[i] = [s for s in self.succ[i] if s not in unreachable]
        for i in range(n):
            for s in self.succ[i]:
                self.pred[s].append(i)
        self.unreachable_blocks = unreachable
        # reachable from entry
        self.reach = self._reach_from(0)
        self._dom = None
        self._pdom = None
        self._loops = None
        self._idom = None

    def _reach_from(self, start, blocked=()):
        seen = {start}
        st = [start]
        while st:
            x = st.pop()
            for s in self.succ[x]:
                if s not in seen and s not in blocked:
                    seen.add(s)
                    st.append(s)
        return seen

    def reachable_from(self, start, blocked=()):
        return self._reach_from(start, blocked)

    def can_reach(self, a, b):
        return b in self._reach_from(a)

    # ---- dominators (iterative set algorithm; bodies are small) ----
    @property
    def dom(self):
        if self._dom is None:
            nodes = sorted(self.reach)
            full = set(nodes)
            dom = {x: set(full) for x in nodes}
            dom[0] = {0}
            changed = True
            while changed:
                changed = False
                for x in nodes:
                    if x == 0:
                        continue
                    ps = [p for p in self.pred[x] if p in full]
                    if not ps:
                        new = {x}
                    else:
                        new = set.intersection(*[dom[p] for p in ps]) | {x}
                    if new != dom[x]:
                        dom[x] = new
                        changed = True
            self._dom = dom
        return self._dom

    def dominates(self, a, b):
        return b in self.dom and a in self.dom[b]

    def idom(self, b):
        if self._idom is None:
            self._idom = {}
            for x, ds in self.dom.items():
                cands = ds - {x}
                best = None
                for c in cands:
                    if all(d in self.dom[c] for d in cands):
                        best = c
                self._idom[x] = best
        return self._idom.get(b)

    @property
    def pdom(self):
        """Post-dominator sets w.r.t. a virtual exit fed by all `return` blocks.
        Blocks that cannot reach a return have pdom = {self}."""
        if self._pdom is None:
            EXIT = -1
            nodes = [x for x in sorted(self.reach)]
            can_exit = set()
            st = list(self.returns)
            can_exit.update(st)
            while st:
                x = st.pop()
                for p in self.pred[x]:
                    if p not in can_exit and p in self.reach:
                        can_exit.add(p)
                        st.append(p)
            full = set(can_exit) | {EXIT}
            pd = {x: set(full) for x in can_exit}
            pd[EXIT] = {EXIT}
            changed = True
            while changed:
                changed = False
                for x in sorted(can_exit, reverse=True):
                    ss = [s for s in self.succ[x] if s in can_exit]
                    if x in self.returns:
                        ss = ss + [EXIT]
                    new = set.intersection(*[pd[s] for s in ss]) | {x} if ss else {x}
                    if new != pd[x]:
                        pd[x] = new
                        changed = True
            for x in nodes:
                if x not in pd:
                    pd[x] = {x}
            self._pdom = pd
        return self._pdom

    def postdominates(self, a, b):
        """a post-dominates b (every path from b to return passes a)."""
        return b in self.pdom and a in self.pdom[b]

    # ---- edge dominance ----
    def edge_dominates(self, a, s, b):
        """Every path from entry to block b uses edge a->s."""
        if s not in self.succ[a]:
            return False
        if b not in self.reach:
            return False
        # remove the edge and test reachability of b
        seen = {0}
        st = [0]
        while st:
            x = st.pop()
            for y in self.succ[x]:
                if x == a and y == s:
                    continue
                if y not in seen:
                    seen.add(y)
                    st.append(y)
        if b == 0:
            return False
        return b not in seen

    def dominating_edges(self, b):
        """All switch edges (a, s, label) that every path to b passes."""
        out = []
        for a in sorted(self.dom.get(b, ())):
            t = self.body.blocks[a]["term"]
            if t["k"] != "switch":
                continue
            for s in self.succ[a]:
                if self.edge_dominates(a, s, b):
                    out.append((a, s, tuple(self.edge_label[(a, s)])))
        return out

    # ---- loops ----
    @property
    def loops(self):
        """List of natural loops: dict(header, body(set), back_edges[(t,h)], exits[(a,b)])."""
        if self._loops is None:
            by_header = {}
            for t in sorted(self.reach):
                for h in self.succ[t]:
                    if self.dominates(h, t):
                        lp = by_header.setdefault(h, {"header": h, "body": {h}, "back_edges": []})
                        lp["back_edges"].append((t, h))
                        st = [t]
                        while st:
                            x = st.pop()
                            if x not in lp["body"]:
                                lp["body"].add(x)
                                st.extend(p for p in self.pred[x] if p in self.reach)
            loops = []
            for h in sorted(by_header):
                lp = by_header[h]
                lp["exits"] = [(a, b) for a in sorted(lp["body"]) for b in self.succ[a]
                               if b not in lp["body"]]
                lp["entries"] = [p for p in self.pred[h] if p not in lp["body"]]
                loops.append(lp)
            self._loops = loops
        return self._loops

    def loop_of_header(self, h):
        for lp in self.loops:
            if lp["header"] == h:
                return lp
        return None

    def innermost_loop(self, b):
        best = None
        for lp in self.loops:
            if b in lp["body"]:
                if best is None or len(lp["body"]) < len(best["body"]):
                    best = lp
        return best

    def enclosing_loops(self, b):
        return sorted([lp for lp in self.loops if b in lp["body"]], key=lambda l: len(l["body"]))

    # ---- paths ----
    def acyclic_paths(self, start, stops, within=None, limit=20000, avoid_edges=()):
        """Enumerate acyclic block paths from `start` that end on first entering a
        block in `stops` (included as last element) or at a block with no
        successor inside `within`.  Paths never revisit a block."""
        out = []
        stack = [(start, [start])]
        while stack:
            x, path = stack.pop()
            if x in stops and len(path) > 1 or (x in stops and len(path) == 1 and False):
                out.append(path)
                continue
            nxt = [s for s in self.succ[x] if (within is None or s in within or s in stops)
                   and (x, s) not in avoid_edges]
            if not nxt:
                out.append(path)
                continue
            for s in nxt:
                if s in path and s not in stops:
                    continue
                if s in path and s in stops:
                    out.append(path + [s])
                    continue
                stack.append((s, path + [s]))
            if len(out) > limit:
                raise RuntimeError("path explosion")
        return out

"""MIR-level inlining of helper functions (functions not in tables/known_functions.KNOWN).

Works on the raw JSON bodies before `Body` objects are built.  A call
`dest = helper(args) -> target` in block B becomes: argument assignments
appended to B, `goto` to a renumbered copy of the helper's blocks, and each
`return` of the copy becomes `dest = move _ret; goto target`."""
import copy

from .mir import make_callee, strip_generics
from .tables.known_functions import KNOWN

MAX_DEPTH = 3
MAX_BLOCKS = 400


def _key(raw):
    return "crate::" + strip_generics(raw["name"])


def _remap(x, loff, boff, is_term=False):
    """Deep-copy JSON value x adding loff to locals and boff to block numbers."""
    if isinstance(x, list):
        return [_remap(y, loff, boff) for y in x]
    if not isinstance(x, dict):
        return x
    out = {}
    for k, v in x.items():
        if k == "l" and isinstance(v, int):
            out[k] = v + loff
        elif k == "index" and isinstance(v, int):
            out[k] = v + loff
        elif k in ("target", "unwind", "otherwise") and isinstance(v, int):
            out[k] = v + boff
        elif k == "targets" and isinstance(v, list):
            out[k] = [[a, b + boff] for a, b in v]
        else:
            out[k] = _remap(v, loff, boff)
    return out


def inline_helpers(raw_bodies):
    """Mutates and returns raw_bodies; adds 'helper': True to helper bodies."""
    by_key = {}
    for rb in raw_bodies:
        if rb["kind"] in ("fn", "assoc_fn"):
            by_key.setdefault(_key(rb), rb)
    helpers = {k for k in by_key if k not in KNOWN}
    if not helpers:
        return raw_bodies
    for k in helpers:
        by_key[k]["helper"] = True
    originals = {k: copy.deepcopy(by_key[k]) for k in helpers}
    for rb in raw_bodies:
        if rb["kind"] in ("const", "static", "anon_const", "promoted"):
            continue
        for _round in range(MAX_DEPTH):
            changed = False
            nblocks = len(rb["blocks"])
            for bi in range(nblocks):
                bl = rb["blocks"][bi]
                t = bl["term"]
                if t["k"] != "call" or "fn" not in t or bl.get("cleanup"):
                    continue
                cal = make_callee(t)
                ck = cal.local_key
                if ck is None or ck not in helpers or ck == _key(rb) or "target" not in t:
                    continue
                cb = originals[ck]
                if len(rb["blocks"]) + len(cb["blocks"]) > MAX_BLOCKS:
                    continue
                loff = len(rb["locals"])
                boff = len(rb["blocks"])
                for lc in copy.deepcopy(cb["locals"]):
                    lc["inlined"] = True
                    rb["locals"].append(lc)
                for d in cb.get("debug", []):
                    if "place" in d:
                        nd = _remap(d, loff, boff)
                        nd.pop("arg", None)
                        rb.setdefault("debug", []).append(nd)
                # argument passing
                for ai, arg in enumerate(t["args"]):
                    ty = cb["locals"][ai + 1]["ty"] if ai + 1 < len(cb["locals"]) else "?"
                    bl["stmts"].append({"k": "assign", "place": {"l": loff + ai + 1, "p": [], "ty": ty},
                                        "rv": {"k": "use", "x": arg}, "span": t["span"], "exp": False})
                dest, target = t["dest"], t["target"]
                span = t["span"]
                bl["term"] = {"k": "goto", "target": boff, "span": span, "exp": False}
                for cbl in cb["blocks"]:
                    nb = _remap(cbl, loff, boff)
                    if nb["term"]["k"] == "return":
                        nb["stmts"].append({"k": "assign", "place": copy.deepcopy(dest),
                                            "rv": {"k": "use", "x": {"k": "move", "place": {"l": loff, "p": [], "ty": cb["locals"][0]["ty"]}}},
                                            "span": span, "exp": False})
                        nb["term"] = {"k": "goto", "target": target, "span": span, "exp": False}
                    rb["blocks"].append(nb)
                changed = True
            if not changed:
                break
    return raw_bodies

"""MANIFEST.setup_cmd: build the exporter from files on disk and warm the
dependency build of each quick configuration."""
import sys
from . import facts as F

if __name__ == "__main__":
    try:
        F.build_driver(force=False)
        for c in F.QUICK_CONFIGS:
            F.export(c, use_cache=False)
        print("twfacts built; quick configurations export")
    except F.BrokenCheck as e:
        print("setup failed:", e)
        sys.exit(1)

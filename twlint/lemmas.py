"""Registry of rule-level lemmas that other rules (LEDGER table entries) rely
on.  A lemma id is either an assumption 'A-*' (DESIGN.md section 3; always
accepted, listed in the evidence) or a rule id registered by a property module.
"""
_REG = {}
_CACHE = {}
_ACTIVE = set()


def register(lemma_id, fn):
    _REG[lemma_id] = fn


def status(prog, lemma_id):
    """'assumed' | 'ok' | 'failed' | 'paper' (not mechanised)."""
    if lemma_id.startswith("A-"):
        return "assumed"
    key = (id(prog), lemma_id)
    if key in _CACHE:
        return _CACHE[key]
    fn = _REG.get(lemma_id)
    if fn is None:
        res = "paper"
    else:
        if key in _ACTIVE:
            raise RuntimeError("cyclic lemma dependency through %s" % lemma_id)
        _ACTIVE.add(key)
        try:
            res = "ok" if fn(prog) else "failed"
        except RuntimeError as e:
            if "cyclic lemma" in str(e):
                raise
            res = "failed"
        except Exception:
            res = "failed"
        finally:
            _ACTIVE.discard(key)
    _CACHE[key] = res
    return res


def load_all():
    """Import every property module so that its lemmas are registered."""
    import importlib
    import os
    d = os.path.join(os.path.dirname(os.path.abspath(__file__)), "props")
    for f in sorted(os.listdir(d)):
        if f.startswith("C") and f.endswith(".py"):
            importlib.import_module("twlint.props." + f[:-3])

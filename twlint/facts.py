"""Build the exporter, run it over /repo's current working tree for a named
feature configuration, and load the resulting fact file.

Nothing here executes textwrap code: `cargo +nightly check` type-checks the
crate and the RUSTC_WORKSPACE_WRAPPER driver dumps MIR.
"""
import hashlib
import json
import os
import shutil
import subprocess
import sys
import time
import uuid

VERIF = os.path.dirname(os.path.dirname(os.path.abspath(__file__)))
WORK = os.path.join(VERIF, ".work")
REPO = os.environ.get("TW_REPO", "/repo")

CONFIGS = {
    "default": [],
    "nodefault": ["--no-default-features"],
    "all": ["--all-features"],
    "only-smawk": ["--no-default-features", "--features", "smawk"],
    "only-unicode-linebreak": ["--no-default-features", "--features", "unicode-linebreak"],
    "only-unicode-width": ["--no-default-features", "--features", "unicode-width"],
    "fuzzing": [],  # default features + --cfg fuzzing
}
QUICK_CONFIGS = ["default", "nodefault"]
THOROUGH_CONFIGS = ["default", "nodefault", "only-smawk", "only-unicode-linebreak",
                    "only-unicode-width", "all", "fuzzing"]


class BrokenCheck(Exception):
    """The machinery (not the property) failed: exit code 2."""


def _env():
    env = dict(os.environ)
    env["CARGO_NET_OFFLINE"] = "true"
    env.pop("RUSTC_WRAPPER", None)
    return env


def nightly_sysroot():
    out = subprocess.run(["rustc", "+nightly", "--print", "sysroot"], capture_output=True,
                         text=True, env=_env())
    if out.returncode != 0:
        raise BrokenCheck("nightly toolchain not available: " + out.stderr)
    return out.stdout.strip()


def driver_path():
    return os.path.join(WORK, "twfacts-target", "release", "twfacts")


def build_driver(force=False):
    src = os.path.join(VERIF, "twfacts")
    drv = driver_path()
    newest = 0
    for root, _d, files in os.walk(src):
        if ".cargo" in root and False:
            continue
        for f in files:
            newest = max(newest, os.path.getmtime(os.path.join(root, f)))
    if not force and os.path.exists(drv) and os.path.getmtime(drv) >= newest:
        return drv
    os.makedirs(WORK, exist_ok=True)
    env = _env()
    env["CARGO_TARGET_DIR"] = os.path.join(WORK, "twfacts-target")
    r = subprocess.run(["cargo", "+nightly", "build", "--release", "--offline"], cwd=src,
                       env=env, capture_output=True, text=True)
    if r.returncode != 0 or not os.path.exists(drv):
        raise BrokenCheck("exporter build failed:\n" + r.stderr[-4000:])
    return drv


def tree_hash(repo=None):
    repo = repo or REPO
    h = hashlib.sha256()
    paths = []
    for root, _d, files in os.walk(os.path.join(repo, "src")):
        for f in files:
            paths.append(os.path.join(root, f))
    for f in ("Cargo.toml", "Cargo.lock"):
        p = os.path.join(repo, f)
        if os.path.exists(p):
            paths.append(p)
    for p in sorted(paths):
        h.update(os.path.relpath(p, repo).encode())
        h.update(b"\0")
        with open(p, "rb") as fh:
            h.update(fh.read())
        h.update(b"\0")
    # the exporter is part of the key
    for root, _d, files in os.walk(os.path.join(VERIF, "twfacts", "src")):
        for f in sorted(files):
            with open(os.path.join(root, f), "rb") as fh:
                h.update(fh.read())
    return h.hexdigest()[:24]


def export(config, repo=None, use_cache=True):
    """Return (facts dict, meta) for `config` on the current tree of `repo`."""
    repo = repo or REPO
    if config not in CONFIGS:
        raise BrokenCheck("unknown config " + config)
    drv = build_driver()
    th = tree_hash(repo)
    tag = hashlib.sha256(os.path.abspath(repo).encode()).hexdigest()[:8]
    cache_dir = os.path.join(WORK, "facts")
    os.makedirs(cache_dir, exist_ok=True)
    cache = os.path.join(cache_dir, "%s-%s-%s.json" % (tag, config, th))
    meta = {"config": config, "tree_hash": th, "repo": repo, "cached": False}
    nocache = os.environ.get("TWLINT_NOCACHE") == "1"      # self-test workers: nothing is left behind in .work
    if nocache:
        use_cache = False
    if use_cache and os.path.exists(cache):
        try:
            with open(cache) as fh:
                facts = json.load(fh)
            meta["cached"] = True
            return facts, meta
        except Exception:
            os.unlink(cache)
    t0 = time.time()
    target = os.path.join(os.environ.get("TWLINT_TARGET_BASE") or WORK, "target-%s-%s" % (tag, config))
    os.makedirs(target, exist_ok=True)
    # concurrent checks of the same tree share this target directory: serialise the export and
    # re-use the result of whoever got there first (cargo would otherwise skip the wrapper for the second)
    import fcntl
    lock_fh = open(os.path.join(target, ".twlint.lock"), "w")
    fcntl.flock(lock_fh, fcntl.LOCK_EX)
    try:
        return _export_locked(config, repo, use_cache, nocache, cache, cache_dir, tag, target, drv, meta, t0)
    finally:
        fcntl.flock(lock_fh, fcntl.LOCK_UN)
        lock_fh.close()


def _export_locked(config, repo, use_cache, nocache, cache, cache_dir, tag, target, drv, meta, t0):
    if use_cache and os.path.exists(cache):
        try:
            with open(cache) as fh:
                facts = json.load(fh)
            meta["cached"] = True
            return facts, meta
        except Exception:
            os.unlink(cache)
    # cargo must not replay a cached result for the workspace member
    fp = os.path.join(target, "debug", ".fingerprint")
    if os.path.isdir(fp):
        for d in os.listdir(fp):
            if d.startswith("textwrap-"):
                shutil.rmtree(os.path.join(fp, d), ignore_errors=True)
    nonce = uuid.uuid4().hex
    out = os.path.join(cache_dir, "out-%s-%s-%s.json" % (tag, config, nonce))
    env = _env()
    env["RUSTC_WORKSPACE_WRAPPER"] = drv
    env["CARGO_TARGET_DIR"] = target
    env["LD_LIBRARY_PATH"] = os.path.join(nightly_sysroot(), "lib") + (
        ":" + env["LD_LIBRARY_PATH"] if env.get("LD_LIBRARY_PATH") else "")
    rf = "-Zmir-opt-level=0 -Awarnings"
    if config == "fuzzing":
        rf += " --cfg fuzzing"
    env["RUSTFLAGS"] = rf
    env["TWFACTS_OUT"] = out
    env["TWFACTS_NONCE"] = nonce
    env["TWFACTS_CONFIG"] = config
    cmd = ["cargo", "+nightly", "check", "--offline", "--lib"] + CONFIGS[config]
    r = subprocess.run(cmd, cwd=repo, env=env, capture_output=True, text=True)
    if r.returncode != 0:
        raise BrokenCheck("cargo check failed for config %s:\n%s" % (config, r.stderr[-4000:]))
    if not os.path.exists(out):
        raise BrokenCheck("exporter wrote no fact file for config %s (stale cargo cache?)\n%s"
                          % (config, r.stderr[-2000:]))
    with open(out) as fh:
        facts = json.load(fh)
    if facts.get("nonce") != nonce:
        raise BrokenCheck("fact file nonce mismatch")
    if nocache:
        os.unlink(out)
        meta["export_s"] = round(time.time() - t0, 2)
        return facts, meta
    os.replace(out, cache)
    # prune old cache entries for this repo/config
    for f in os.listdir(cache_dir):
        if f.startswith("%s-%s-" % (tag, config)) and f != os.path.basename(cache):
            try:
                os.unlink(os.path.join(cache_dir, f))
            except OSError:
                pass
    meta["export_s"] = round(time.time() - t0, 2)
    return facts, meta


if __name__ == "__main__":
    cfgs = sys.argv[1:] or QUICK_CONFIGS
    for c in cfgs:
        f, m = export(c, use_cache=False)
        print(c, m, "bodies", len(f["bodies"]), "items", len(f["items"]))

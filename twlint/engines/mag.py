"""MAG: magnitude analysis of the optimal-fit cost closure (DESIGN.md 4.9).

Abstract domain: an exponent e with |v| < 2**e.  Verdict: every cost the
closure can return is finite for usize-valued widths and penalties, hence
`Err(OverflowError)` is unreachable from WrapAlgorithm::wrap."""
import math

from ..sym import sym_of
from ..describe import describe

F64_MAX_EXP = 1024
LEN_EXP = 63          # number of fragments / lines <= isize::MAX
USIZE_EXP = 64


class MagFail(Exception):
    pass


def const_exp(x):
    x = abs(float(x))
    if x == 0:
        return 0
    if math.isinf(x) or math.isnan(x):
        raise MagFail("non-finite constant")
    return max(0, math.frexp(x)[1])


def mag(prog, t, ctx, depth=0):
    """exponent bound of term t; ctx: dict of role atoms -> exponent, and 'ACC' marker term."""
    if depth > 60:
        raise MagFail("too deep")
    if t == ctx.get("ACC"):
        return ctx.get("ACC_EXP", 0)
    if t in ctx["atoms"]:
        return ctx["atoms"][t]
    tag = t[0]
    if tag == "float":
        return const_exp(t[1])
    if tag == "int":
        return max(0, int(t[1]).bit_length())
    if tag == "cast" and t[1] == "IntToFloat":
        if t[3] == "f64":
            return USIZE_EXP   # the operand is an integer type of at most 64 bits (usize fields of Penalties / Word)
    if tag == "bin":
        op, a, b = t[1], t[2], t[3]
        if op in ("Add", "Sub"):
            return max(mag(prog, a, ctx, depth + 1), mag(prog, b, ctx, depth + 1)) + 1
        if op == "Mul":
            return mag(prog, a, ctx, depth + 1) + mag(prog, b, ctx, depth + 1)
        raise MagFail("operator %s in a cost term" % op)
    if tag == "call":
        name, args = t[1], t[2]
        if name in ("f64::max", "f64::min"):
            return max(mag(prog, a, ctx, depth + 1) for a in args)
        if name == "Option::unwrap_or":
            return max(mag(prog, a, ctx, depth + 1) for a in args)
        if name == "Option::copied":
            return mag(prog, args[0], ctx, depth + 1)
        if name == "[]::get" and args[0] in ctx["lists"]:
            return ctx["lists"][args[0]]
        if name == "[]::last" and args[0] in ctx["lists"]:
            return ctx["lists"][args[0]]
        if name in ("Fragment::width", "Fragment::whitespace_width", "Fragment::penalty_width"):
            return ctx["fragment_exp"]
        if name == "Index::index" and args[0] in ctx["lists"]:
            return ctx["lists"][args[0]]
        raise MagFail("call %s in a cost term" % name)
    raise MagFail("unrecognised term %s" % str(t)[:80])


def cost_is_finite(prog):
    """Returns (ok, note).  Uses the closure model of the optimal-fit cost closure."""
    from ..props import models
    m = models.optimal_fit(prog)
    cl = m.smawk_call[2][2]
    cb = prog.body(cl[1])
    cm = models.closure_model(prog, cb, state_types=())
    MIN, I, J = (("param", k, cb.arg_names.get(k, "_%d" % k)) for k in (2, 3, 4))
    env = cm.env
    lists = {}
    atoms = {}
    for n, v in env.items():
        if n.endswith("#state"):
            continue
        up = ("upvar", n)
        if v == m.LW:
            lists[up] = USIZE_EXP          # elements are `usize as f64` (C03.R5 / C07.R3: f64 image of usize widths)
        elif v[0] == "call" and v[1] in ("Vec::with_capacity", "Vec::new"):
            # prefix sums: at most 2^63 summands, each width+whitespace < 2^65 (C03.R1)
            lists[up] = LEN_EXP + USIZE_EXP + 1
        elif v[0] == "call" and v[1] == "Option::unwrap_or":
            atoms[up] = USIZE_EXP          # default line width: last listed width or 0.0
    # Word's Fragment impl returns usize-valued f64 (checked structurally)
    frag_exp = USIZE_EXP
    for meth in ("width", "whitespace_width", "penalty_width"):
        key = "crate::<core::Word as core::Fragment>::%s" % meth
        b = prog.body(key)
        if b is None:
            return False, "Fragment impl for Word not found (%s)" % key
        s = sym_of(b)
        ret = prog.simp(s.val((0, ()), b.cfg.returns[0], "term"), b)
        if not (ret[0] == "cast" and ret[1] == "IntToFloat"):
            return False, "Word::%s is not `<usize value> as f64` (%s)" % (meth, describe(ret, b)[:80])
    acc = ("field", ("index", MIN, I), "1")
    ctx = {"ACC": acc, "ACC_EXP": 0, "atoms": atoms, "lists": lists, "fragment_exp": frag_exp}
    worst = 0
    n = 0
    for rp in cm.returns:
        try:
            e = mag(prog, rp.ret, ctx)
        except MagFail as ex:
            return False, "cannot bound a cost: %s" % ex
        worst = max(worst, e)
        n += 1
    total = worst + LEN_EXP + 1   # at most 2^63 lines accumulate
    if total >= F64_MAX_EXP:
        return False, "cost bound 2^%d exceeds the f64 range" % total
    return True, "per-line cost < 2^%d over %d paths; accumulated over <= 2^63 lines < 2^%d < 2^1024: no cost is infinite" % (worst, n, total)

"""LEDGER: enumerate every panic / non-termination obligation from MIR and
discharge each by a schema whose premises are checked on the current MIR."""
from ..sym import sym_of, subterms, pk_of
from ..describe import describe
from ..mir import ty_head
from ..pred import facts_at
from ..tables.panicky_std import PANICKY
from ..engine import loop_models, iter_chain


class Obl:
    def __init__(self, kind, body, block, site, terms, what):
        self.kind = kind          # e.g. assert:Overflow:Add, call:Index::index, loop, ...
        self.body = body
        self.block = block
        self.site = site
        self.terms = terms        # simplified operand terms
        self.what = what          # readable description
        self.shape = None         # stable descriptor
        self.facts = None
        self.extra = {}

    def key(self):
        return "%s|%s|%s" % (self.body.key, self.kind, self.shape)


def shape(t, body, depth=0, limit=14):
    """Rename-invariant rendering: parameters by position, upvars/phis by type.
    Below `limit` levels the term is elided as `_` (table keys use a small limit so
    that edits far upstream of an operand do not change the key)."""
    if not isinstance(t, tuple) or not t:
        return repr(t)
    if depth > limit:
        return "_"
    tag = t[0]
    S = lambda x: shape(x, body, depth + 1, limit)
    if tag == "param":
        return "$%d" % t[1]
    if tag == "upvar":
        return "^"
    if tag == "phi":
        return "phi:" + _pk_ty(body, t[2])
    if tag == "mut":
        return "mut:" + _pk_ty(body, t[3])
    if tag == "mutref":
        return "&mut:" + _pk_ty(body, t[1])
    if tag == "call":
        return "%s(%s)" % (t[1], ",".join(S(a) for a in t[2]))
    if tag == "callm":
        return "%s!(%s)" % (t[1], ",".join(S(a) for a in t[2]))
    if tag == "bin":
        return "(%s %s %s)" % (S(t[2]), t[1], S(t[3]))
    if tag == "un":
        return "%s(%s)" % (t[1], S(t[2]))
    if tag == "cast":
        return "(%s as %s)" % (S(t[2]), t[3])
    if tag == "field":
        return "%s.%s" % (S(t[1]), t[2])
    if tag == "as":
        return "%s?%s" % (S(t[1]), t[2])
    if tag == "index":
        return "%s[%s]" % (S(t[1]), S(t[2]))
    if tag == "discr":
        return "discr(%s)" % S(t[1])
    if tag in ("tuple", "array"):
        return "(%s)" % ",".join(S(x) for x in t[1])
    if tag == "adt":
        return "%s::%s{%s}" % (t[1].split("::")[-1], t[2], ",".join("%s:%s" % (n, S(v)) for n, v in t[3]))
    if tag == "closure":
        return "closure{%s}" % ",".join(sorted(S(v) for n, v in t[2]))   # capture order follows first use: not significant
    if tag == "update":
        return "%s{..=%s}" % (S(t[1]), S(t[3]))
    if tag in ("ovf", "ovfflag"):
        return "(%s %s %s)" % (S(t[2]), t[1], S(t[3]))
    if tag == "var":
        return "v:" + t[2]
    return describe(t, body)


def _upvar_ty(body, name):
    for i, n in enumerate(body.upvars):
        nn = n[len("_ref__"):] if n.startswith("_ref__") else n
        if nn == name:
            # type of field i of the closure env
            for d in body.raw.get("debug", []):
                if d["name"] in (n, nn) and "place" in d:
                    return ty_head(d["place"]["ty"])
    return "?"


def _pk_ty(body, pk):
    if pk and pk[0] == "opaque":
        return "?"
    l, proj = pk
    # find a statement/debug entry mentioning the type: use local type + last field type unknown
    if not proj:
        return ty_head(body.local_ty(l))
    for d in body.raw.get("debug", []):
        pl = d.get("place")
        if pl and pk_of(pl)[0] == l and _same(pk_of(pl)[1], proj):
            return ty_head(pl["ty"])
    return ty_head(body.local_ty(l)) + "." + ".".join(str(e[2]) if isinstance(e, tuple) and len(e) > 2 else "*" for e in proj if e != "deref")


def _same(p, q):
    if len(p) != len(q):
        return False
    for a, b in zip(p, q):
        if a == b:
            continue
        if isinstance(a, tuple) and isinstance(b, tuple) and a[0] == b[0] and a[1] == b[1]:
            continue
        return False
    return True


def enumerate_obligations(prog, bodies=None):
    """All panic / termination obligations of the given bodies (default: every
    non-derived body)."""
    out = []
    for body in (bodies if bodies is not None else list(prog.bodies())):
        if body.kind in ("const", "static", "anon_const", "promoted"):
            continue
        s = sym_of(body)
        cfg = body.cfg
        for b in sorted(cfg.reach):
            bl = body.blocks[b]
            t = bl["term"]
            nst = len(bl["stmts"])
            if t["k"] == "assert":
                m = t["msg"]
                kind = "assert:" + m["kind"] + (":" + m["op"] if "op" in m else "")
                ops = []
                for k in ("l", "r", "x", "index", "len"):
                    if k in m:
                        ops.append(prog.simp(s.operand(m[k], b, nst), body))
                o = Obl(kind, body, b, t["span"], ops,
                        "%s %s" % (kind, " , ".join(describe(x, body) for x in ops)))
                if m["kind"] == "BoundsCheck":
                    o.shape = "%s<%s" % (shape(ops[0], body), _bounds_base(ops[1], body))
                else:
                    o.shape = " ; ".join(shape(x, body) for x in ops)
                out.append(o)
            elif t["k"] == "call":
                cal = body.callee(b)
                if cal.indirect:
                    o = Obl("indirect", body, b, t["span"], [], "indirect call through " + (cal.fn_ty or "?"))
                    o.shape = cal.fn_ty or "?"
                    out.append(o)
                    continue
                name = cal.tname if cal.tname in PANICKY else cal.name
                if name in PANICKY:
                    args = [prog.simp(a, body) for a in s.call_args(b)]
                    o = Obl("call:" + name, body, b, t["span"], args,
                            "%s(%s)" % (name, ", ".join(describe(a, body) for a in args)))
                    o.shape = ",".join(shape(a, body) for a in args)
                    o.extra["recv"] = cal.recv
                    out.append(o)
                elif cal.krate not in ("core", "alloc", "std", "textwrap") and not cal.local_key:
                    if cal.krate is None and cal.trait and cal.trait.startswith("core::") is False and "Fragment" in (cal.trait or ""):
                        continue
                    args = [prog.simp(a, body) for a in s.call_args(b)]
                    o = Obl("extern:" + cal.name, body, b, t["span"], args,
                            "call into crate %s: %s" % (cal.krate, cal.name))
                    o.shape = cal.name
                    out.append(o)
        # closures handed to iter::from_fn must eventually yield None
        for b, t, cal in body.calls():
            if cal.name == "std::iter::from_fn":
                cl = prog.simp(s.call_args(b)[0], body)
                if cl[0] == "closure" and prog.body(cl[1]) is not None:
                    cb = prog.body(cl[1])
                    o = Obl("fromfn", cb, 0, t["span"], [], "closure passed to iter::from_fn must be finite")
                    o.shape = "from_fn"
                    o.extra["closure"] = cb
                    out.append(o)
                else:
                    o = Obl("fromfn", body, b, t["span"], [], "from_fn with an unresolved closure")
                    o.shape = "from_fn:unresolved"
                    out.append(o)
        # loops
        for lm in loop_models(prog, body):
            o = Obl("loop", body, lm.header, body.blocks[lm.header]["term"]["span"], [],
                    "loop at header bb%d" % lm.header)
            o.extra["lm"] = lm
            src = lm.source
            o.shape = shape(src, body) if src is not None else "non-iterator"
            out.append(o)
    # recursion: SCCs of the call graph
    cg = prog.call_graph()
    for scc in _sccs(cg):
        if len(scc) > 1 or (len(scc) == 1 and next(iter(scc)) in cg[next(iter(scc))]):
            key = sorted(scc)[0]
            body = prog.body(key)
            if bodies is not None and body not in bodies:
                continue
            o = Obl("recursion", body, 0, body.span, [], "recursive cycle " + " -> ".join(sorted(scc)))
            o.shape = ",".join(sorted(scc))
            out.append(o)
    for o in out:
        o.facts = None
    return out


def _bounds_base(lenterm, body):
    return shape(lenterm, body)


def _sccs(g):
    index = {}
    low = {}
    stack = []
    on = set()
    res = []
    counter = [0]

    def strong(v):
        # iterative Tarjan
        work = [(v, iter(sorted(g.get(v, ()))))]
        index[v] = low[v] = counter[0]
        counter[0] += 1
        stack.append(v)
        on.add(v)
        while work:
            node, it = work[-1]
            advanced = False
            for w in it:
                if w not in g:
                    continue
                if w not in index:
                    index[w] = low[w] = counter[0]
                    counter[0] += 1
                    stack.append(w)
                    on.add(w)
                    work.append((w, iter(sorted(g.get(w, ())))))
                    advanced = True
                    break
                elif w in on:
                    low[node] = min(low[node], index[w])
            if advanced:
                continue
            work.pop()
            if work:
                parent = work[-1][0]
                low[parent] = min(low[parent], low[node])
            if low[node] == index[node]:
                comp = set()
                while True:
                    w = stack.pop()
                    on.discard(w)
                    comp.add(w)
                    if w == node:
                        break
                res.append(comp)

    for v in sorted(g):
        if v not in index:
            strong(v)
    return res


# ----------------------------------------------------------------------
# discharge driver
# ----------------------------------------------------------------------
def cut_describe(prog, o):
    """Readable rendering of the operands with user variables by name."""
    body = o.body
    s = sym_of(body, cut=True)
    t = body.blocks[o.block]["term"]
    nst = len(body.blocks[o.block]["stmts"])
    if o.kind.startswith("assert:"):
        m = t["msg"]
        ops = [describe(prog.simp(s.operand(m[k], o.block, nst), body), body)
               for k in ("l", "r", "x", "index", "len") if k in m]
        op = {"Add": "+", "Sub": "-", "Mul": "*"}.get(m.get("op"), ",")
        return (" %s " % op).join(ops)
    if o.kind.startswith("call:"):
        return "%s(%s)" % (o.kind[5:], ", ".join(describe(prog.simp(a, body), body) for a in s.call_args(o.block)))
    return o.what


KEY_DEPTH = 2


def _atoms_key(t, body):
    """Commutation/association/let-invariant key of an arithmetic term: the sorted set of
    (depth-limited) shapes of the atoms of its polynomial normal form, plus 'k' if it has a
    non-zero constant part."""
    from ..poly import poly
    p = poly(t)
    parts = sorted({shape(a, body, 0, KEY_DEPTH) for a in p.atoms()})
    if p.m.get((), 0) != 0:
        parts.append("k")
    return "{" + " ".join(parts) + "}"


def _arg_key(t, body):
    if not isinstance(t, tuple) or not t:
        return repr(t)
    if t[0] == "adt" and t[1].split("::")[-1] in ("Range", "RangeFrom", "RangeTo", "RangeInclusive"):
        return "%s{%s}" % (t[1].split("::")[-1], ",".join("%s:%s" % (n, _atoms_key(v, body)) for n, v in t[3]))
    if t[0] in ("bin", "int") or (t[0] == "cast"):
        return _atoms_key(t, body)
    return shape(t, body, 0, KEY_DEPTH)


def cut_shape(prog, o):
    """Table key of an obligation.  Built from the polynomial atoms of its operands, so it is
    invariant under renaming, introducing/inlining `let`s, commuting or re-associating sums and
    products and flipping comparisons, and is elided below KEY_DEPTH levels so that edits far
    upstream of an operand do not change it; it changes when an operand involves a different
    quantity."""
    body = o.body
    s = sym_of(body)
    t = body.blocks[o.block]["term"]
    nst = len(body.blocks[o.block]["stmts"])
    if o.kind.startswith("assert:"):
        m = t["msg"]
        ops = []
        for k in ("l", "r", "x", "index", "len"):
            if k in m:
                ops.append(prog.simp(s.operand(m[k], o.block, nst), body))
        if m["kind"] in ("DivisionByZero", "RemainderByZero"):
            c = prog.simp(s.operand(t["cond"], o.block, nst), body)
            ops.append(c)
        if m["kind"] == "Overflow" and m.get("op") in ("Add", "Mul"):
            return " ; ".join(sorted(_atoms_key(x, body) for x in ops))
        return " ; ".join(_atoms_key(x, body) for x in ops)
    if o.kind.startswith("call:"):
        return ",".join(_arg_key(prog.simp(a, body), body) for a in s.call_args(o.block))
    return o.shape


def schema_fromfn(prog, o):
    if o.kind != "fromfn":
        return None
    from . import schemas as S
    why = S.fromfn_finite(prog, o.extra["closure"])
    if why:
        return ("FROMFN-FINITE", why)
    return None


def discharge(prog, o, table, lemma_ok=None):
    from . import schemas as S
    for fn in (S.schema_overflow, S.schema_div, S.schema_bounds, S.schema_index, S.schema_refcell,
               S.schema_misc_call, S.schema_loop, S.schema_loop2, schema_fromfn):
        try:
            r = fn(prog, o)
        except RecursionError:
            r = None
        if r:
            return r
    cs = cut_shape(prog, o) if o.kind.startswith(("assert:", "call:")) else o.shape
    o.extra["cut_shape"] = cs
    ent = table.get((o.body.key, o.kind, cs))
    if ent is None:
        ent = table.get((o.body.key, o.kind, "*")) if (o.body.key, o.kind, "*") in table else None
    if ent is not None:
        return ("TABLE", ent)
    return None

"""Discharge schemas of the LEDGER.  Every schema checks structural premises
on the current MIR-derived terms; none evaluates textwrap code.

A schema returns (name, note) when its premises hold, else None.
"""
from ..sym import sym_of, subterms, pk_of
from ..describe import describe
from ..pred import facts_at, path_facts
from ..mir import ty_head
from ..engine import LoopModel, iter_chain, loop_models

LEN_FUNS = {"str::len", "[]::len", "Vec::len", "String::len"}
USIZE_BITS = 64
LEN_BITS = 63   # A-std: str/slice/Vec lengths are <= isize::MAX

INDEX_ITERS = {"str::char_indices", "str::match_indices"}
FINITE_ROOT_CALLS = {
    "str::chars", "str::char_indices", "str::lines", "str::split", "str::split_terminator",
    "str::match_indices", "str::bytes", "str::split_whitespace", "[]::iter", "Vec::iter",
    "[]::iter_mut",
}
ADAPTERS = {
    "Iterator::enumerate", "Iterator::zip", "Iterator::map", "Iterator::filter", "Iterator::by_ref",
    "IntoIterator::into_iter", "Iterator::rev", "Iterator::skip", "Iterator::take", "Iterator::peekable",
    "Iterator::copied", "Iterator::cloned", "Iterator::chain",
}


# ----------------------------------------------------------------------
# magnitude bounds for usize terms
# ----------------------------------------------------------------------
LEN_MAX = 2 ** 63 - 1      # A-std: str/slice/Vec lengths are <= isize::MAX
USIZE_MAX = 2 ** 64 - 1


def ubound(prog, body, t, facts=(), depth=0):
    """An integer U with t <= U justified structurally (None = unknown)."""
    if depth > 30 or not isinstance(t, tuple):
        return None
    tag = t[0]
    R = lambda x: ubound(prog, body, x, facts, depth + 1)
    if tag == "int":
        return t[1] if t[1] >= 0 else None
    if tag == "bool":
        return 1
    if tag == "call":
        name, args = t[1], t[2]
        if name in LEN_FUNS:
            return LEN_MAX
        if name == "From::from" and len(args) == 1:
            return 1 if _is_bool_term(args[0]) else R(args[0])
        if name == "usize::saturating_sub" and len(args) == 2:
            return R(args[0])
        if name in ("std::cmp::max", "usize::max", "Ord::max") and len(args) == 2:
            a, b = R(args[0]), R(args[1])
            return None if a is None or b is None else max(a, b)
        if name in ("std::cmp::min", "usize::min", "Ord::min") and len(args) == 2:
            vals = [x for x in (R(args[0]), R(args[1])) if x is not None]
            return min(vals) if vals else None
        if name == "crate::core::display_width":
            return LEN_MAX  # C10 bound lemma: display width <= byte length (A-uw / CUTOFF)
        if name == "crate::core::ch_width":
            return 3        # <= len_utf8 (A-uw / CUTOFF lemma), hence <= 4
        if name == "char::len_utf8":
            return 4
        return None
    if tag == "bin":
        op, a, b = t[1], t[2], t[3]
        if op in ("Lt", "Le", "Gt", "Ge", "Eq", "Ne"):
            return 1
        ua, ub = R(a), R(b)
        if op == "Add":
            return None if ua is None or ub is None else ua + ub
        if op == "Mul":
            return None if ua is None or ub is None else ua * ub
        if op in ("Sub", "Div", "Shr"):
            return ua
        if op in ("Rem", "BitAnd"):
            vals = [x for x in (ua, ub) if x is not None]
            return min(vals) if vals else None
        return None
    if tag == "cast" and t[1] == "IntToInt":
        return R(t[2])
    if tag == "field":
        if _is_index_like(prog, body, t):
            return LEN_MAX
    if tag == "phi" and iter_counter_base(prog, body, t) is not None:
        return LEN_MAX      # counts completed iterations of a loop over a slice / str: <= its length
    if tag == "param" and depth < 6:
        return _param_ubound(prog, body, t, depth)
    return None


def _param_ubound(prog, body, param, depth):
    """Upper bound of a parameter of a crate-private function: the largest bound over all its call sites."""
    vis = str(body.vis or "")
    if not vis.startswith("Restricted") or body.kind not in ("fn", "assoc_fn"):
        return None
    idx = param[1] - 1
    best = None
    sites = 0
    for fb in prog.bodies():
        for b, t, cal in fb.calls():
            if cal.local_key != body.key:
                continue
            sites += 1
            if idx >= len(t["args"]):
                return None
            fs = sym_of(fb)
            av = prog.simp(fs.call_args(b)[idx], fb)
            u = ubound(prog, fb, av, facts_at(prog, fb, b), depth + 1)
            if u is None:
                return None
            best = u if best is None else max(best, u)
    return best if sites else None


_COUNTER_MEMO = {}


def iter_counter_base(prog, body, x):
    """x is a position counter of an iterator-driven loop over a slice, Vec or str (a usize variable that is 0 on
    entry and incremented by one on every path round the loop): the iterated collection, else None."""
    if x[0] != "phi":
        return None
    key = (body.key, x)
    if key in _COUNTER_MEMO:
        return _COUNTER_MEMO[key]
    _COUNTER_MEMO[key] = None
    from ..engine import loop_models
    from ..idioms import FirstIter
    for lm in loop_models(prog, body):
        if lm.kind != "iter" or lm.header != x[1]:
            continue
        fi = FirstIter(prog, body, lm)
        if x not in fi.counters:
            continue
        chain, root, _ = iter_chain(fi.source) if fi.source else ([], None, [])
        names = [n for n in chain if n not in ("IntoIterator::into_iter", "Iterator::by_ref")]
        if names in (["[]::iter"], ["Vec::iter"], ["str::chars"], ["str::char_indices"], ["str::bytes"]):
            _COUNTER_MEMO[key] = root
            return root
    return None


def _fmt_bound(u):
    if u == LEN_MAX:
        return "isize::MAX"
    if u > 2 ** 32:
        return "2^%d" % u.bit_length()
    return str(u)


def _is_bool_term(t):
    return t[0] == "bool" or (t[0] == "bin" and t[1] in ("Lt", "Le", "Gt", "Ge", "Eq", "Ne"))


def _strip_item(t):
    """(next-call-term, [field path]) if t is a projection of a loop item."""
    path = []
    while t[0] == "field":
        path.append(t[2])
        t = t[1]
    if t[0] == "as" and t[2] == "Some" and t[1][0] in ("callm", "call"):
        return t[1], list(reversed(path))
    return None, None


def item_source(prog, body, t):
    """If t is a projection of the item yielded by `next` on an iterator whose
    source we can see, return (source term, field path, next call)."""
    call, path = _strip_item(t)
    if call is None:
        return None
    if call[1] not in ("Iterator::next", "DoubleEndedIterator::next_back"):
        if call[1] == "str::find":
            return (call, path, call)
        return None
    if not call[2] or call[2][0][0] != "mutref":
        return None
    site = call[3]
    src = resolve_iter(prog, body, call[2][0], site[1])
    if src is None:
        return None
    return (src, path, call)


def resolve_iter(prog, body, t, at_block, depth=0):
    """Follow an iterator value back to the expression that created it: through
    `&mut place` (state before the first `next`), by_ref/into_iter wrappers and
    closure captures (linked to the parent's value, in closure terms)."""
    if depth > 12 or not isinstance(t, tuple):
        return None
    s = sym_of(body)
    if t[0] == "mutref":
        pk = t[1]
        if pk[0] == "opaque":
            return None
        v = s.val(pk, at_block, "term")
        o = _iterator_origin(prog, body, pk, v)
        if o is None:
            return None
        return resolve_iter(prog, body, prog.simp(o, body), at_block, depth + 1)
    if t[0] in ("call", "callm") and t[1] in ("Iterator::by_ref", "IntoIterator::into_iter") and t[2]:
        site_b = t[3][1] if t[0] == "callm" else at_block
        return resolve_iter(prog, body, t[2][0], site_b, depth + 1)
    if t[0] == "upvar":
        v = upvar_in_closure_terms(prog, body, t[1])
        if v is None:
            return None
        return v
    if t[0] in ("mut", "phi"):
        pk = t[3] if t[0] == "mut" else t[2]
        o = _iterator_origin(prog, body, pk, t)
        if o is None or o[0] in ("mut", "phi"):
            return None
        return resolve_iter(prog, body, prog.simp(o, body), at_block, depth + 1)
    return t


def _iterator_origin(prog, body, it_pk, v, depth=0):
    """Value the iterator place was created with (ignoring `next` mutations)."""
    s = sym_of(body)
    seen = set()
    work = [v]
    origins = set()
    while work:
        x = work.pop()
        if x in seen:
            continue
        seen.add(x)
        if x[0] == "phi":
            for p, iv in s.phi_inputs(x).items():
                work.append(iv)
        elif x[0] == "mut":
            # state after a call that took &mut it: look before that call
            site = x[1]
            work.append(s.val(x[3], site[1], "term"))
        else:
            origins.add(x)
        if len(seen) > 200:
            return None
    if len(origins) == 1:
        return next(iter(origins))
    return None


def _is_index_like(prog, body, t):
    """t is a byte offset yielded by char_indices / match_indices / find over a str."""
    r = item_source(prog, body, t)
    if r is None:
        return False
    src, path, call = r
    if call[1] == "str::find":
        return path == ["0"]
    chain, root, _ = iter_chain(src)
    # walk adapters: enumerate adds (idx, item): path[0]=='0' then first component is a count
    p = list(path)
    if p and p[0] == "0":
        p = p[1:]
    else:
        return False
    for name in chain:
        if name in ("Iterator::by_ref", "IntoIterator::into_iter"):
            continue
        if name == "Iterator::enumerate":
            if p and p[0] == "1":
                p = p[1:]
                continue
            return False
        if name == "Iterator::zip":
            if p and p[0] == "0":
                p = p[1:]
                continue
            return False
        if name in INDEX_ITERS:
            return p == ["0"]
        return False
    return False


def index_iter_base(prog, body, t):
    """If t is an index yielded by char_indices/match_indices over string X (possibly
    through enumerate/zip/by_ref), return (X, kind)."""
    r = item_source(prog, body, t)
    if r is None:
        return None
    src, path, call = r
    if call[1] == "str::find":
        if path == ["0"]:
            return (call[2][0], "find", call)
        return None
    chain, root, extras = iter_chain(src)
    p = list(path)
    if not p or p[0] != "0":
        return None
    p = p[1:]
    t2 = src
    for name in chain:
        if name in ("Iterator::by_ref", "IntoIterator::into_iter"):
            t2 = t2[2][0]
            continue
        if name == "Iterator::enumerate":
            if p and p[0] == "1":
                p = p[1:]
                t2 = t2[2][0]
                continue
            return None
        if name == "Iterator::zip":
            if p and p[0] == "0":
                p = p[1:]
                t2 = t2[2][0]
                continue
            return None
        if name in INDEX_ITERS:
            if p == ["0"]:
                return (t2[2][0], name, t2)
            return None
        return None
    return None


# ----------------------------------------------------------------------
# arithmetic schemas
# ----------------------------------------------------------------------
def fact_implies_ge(facts, x, c):
    """Do the dominating facts imply x >= c (c small const)?"""
    for atom, pol in facts:
        if atom[0] == "cmp":
            op, a, b = atom[1], atom[2], atom[3]
            if pol:
                # a < b
                if op == "Lt" and b == x and a[0] == "int" and a[1] + 1 >= c:
                    return True
                if op == "Le" and b == x and a[0] == "int" and a[1] >= c:
                    return True
                if op == "Lt" and b == x and c <= 1:
                    return True  # something < x  =>  x >= 1
            else:
                # not (x == k)
                if op == "Eq" and c <= 1 and ((a == x and b == ("int", 0)) or (b == x and a == ("int", 0))):
                    return True
                # not (x < k)  => x >= k ; not (x <= k) => x > k
                if op == "Lt" and a == x and b[0] == "int" and b[1] >= c:
                    return True
                if op == "Le" and a == x and b[0] == "int" and b[1] + 1 >= c:
                    return True
    return False


def fact_le(facts, a, b):
    """facts imply a <= b."""
    if a == b:
        return True
    for atom, pol in facts:
        if atom[0] != "cmp":
            continue
        op, x, y = atom[1], atom[2], atom[3]
        if pol and op in ("Lt", "Le") and x == a and y == b:
            return True
        if pol and op == "Eq" and {x, y} == {a, b}:
            return True
        if not pol and op == "Lt" and x == b and y == a:   # not (b < a)
            return True
        if not pol and op == "Le" and x == b and y == a:   # not (b <= a) => a < b
            return True
    return False


def fact_lt(facts, a, b):
    for atom, pol in facts:
        if atom[0] != "cmp":
            continue
        op, x, y = atom[1], atom[2], atom[3]
        if pol and op == "Lt" and x == a and y == b:
            return True
        if not pol and op == "Le" and x == b and y == a:
            return True
    return False


def schema_overflow(prog, o):
    body = o.body
    kind = o.kind
    if not kind.startswith("assert:Overflow"):
        return None
    op = kind.split(":")[2]
    a, b = o.terms[0], o.terms[1]
    facts = facts_at(prog, body, o.block)
    if a[0] == "int" and b[0] == "int":
        v = {"Add": a[1] + b[1], "Sub": a[1] - b[1], "Mul": a[1] * b[1]}.get(op)
        if v is not None and 0 <= v < 2 ** USIZE_BITS:
            return ("CONST-FOLD", "%d %s %d = %d" % (a[1], op, b[1], v))
        return None
    if op in ("Add", "Mul"):
        ua = ubound(prog, body, a, facts)
        ub = ubound(prog, body, b, facts)
        if ua is not None and ub is not None:
            u = ua + ub if op == "Add" else ua * ub
            if u <= USIZE_MAX:
                return ("LEN-ARITH", "operands bounded by %s and %s (lengths <= isize::MAX), result <= usize::MAX"
                        % (_fmt_bound(ua), _fmt_bound(ub)))
        r = schema_bounded_accumulator(prog, o, a, b)
        if r:
            return r
        if op == "Add":
            r = schema_below_usize(prog, o, a, b, facts)
            if r:
                return r
            for x, k in ((a, b), (b, a)):
                if k == ("int", 1) and _range_item_end(prog, body, x) is not None:
                    return ("RANGE-ITEM", "an item of a range is below its end, so item + 1 cannot overflow")
        return None
    if op == "Sub":
        if b[0] == "int" and fact_implies_ge(facts, a, b[1]):
            return ("GUARD-DOM", "dominating guard implies %s >= %d" % (describe(a, body), b[1]))
        if fact_le(facts, b, a):
            return ("GUARD-DOM", "dominating guard implies %s <= %s" % (describe(b, body), describe(a, body)))
        r = schema_suffix_len(prog, o, a, b)
        if r:
            return r
        r = schema_member_of_sum(prog, o, a, b)
        if r:
            return r
        r = schema_nonempty_result(prog, o, a, b)
        if r:
            return r
        r = schema_nonempty_string(prog, o, a, b, facts)
        if r:
            return r
    return None


def schema_below_usize(prog, o, a, b, facts):
    """a + b where a dominating guard gives a + b <= n (+ c, c <= 0) for a single usize-valued term n:
    e.g. `i + 1` under `i < n`."""
    from ..poly import poly, Poly, fact_nf
    tot = poly(a) + poly(b)
    for f in facts:
        if f[0][0] != "cmp":
            continue
        k, q = fact_nf(f)
        if k != "ge0":
            continue
        r = q + tot            # q >= 0  ==>  a + b <= r
        c = r.const_value()
        rest = r - Poly.const(c)
        items = list(rest.m.items())
        if c <= 0 and len(items) == 1 and len(items[0][0]) == 1 and items[0][1] == 1 and is_usize_term(o.body, items[0][0][0]):
            return ("GUARD-DOM", "dominating guard implies the sum is <= %s, a usize value" % describe(items[0][0][0], o.body))
    return None


def is_usize_term(body, t):
    """Conservative: lengths, usize parameters and usize user variables."""
    if t[0] == "call" and t[1] in LEN_FUNS:
        return True
    if t[0] == "param":
        return body.local_ty(t[1]).strip() == "usize"
    if t[0] == "phi":
        pk = t[2]
        return not pk[1] and body.local_ty(pk[0]).strip() == "usize"
    if t[0] == "field" and t[1][0] == "param":
        return False
    return False


def schema_div(prog, o):
    if o.kind not in ("assert:DivisionByZero", "assert:RemainderByZero"):
        return None
    # operand exported is the dividend; the divisor is in the statement after the assert:
    body = o.body
    s = sym_of(body)
    t = body.blocks[o.block]["term"]
    cond = prog.simp(s.operand(t["cond"], o.block, len(body.blocks[o.block]["stmts"])), body)
    # cond is (divisor Eq 0)
    div = None
    if cond[0] == "bin" and cond[1] == "Eq":
        div = cond[2] if cond[3] == ("int", 0) else cond[3] if cond[2] == ("int", 0) else None
    if div is None:
        return None
    o.extra["divisor"] = div
    facts = facts_at(prog, body, o.block)
    if div[0] == "int" and div[1] != 0:
        return ("CONST-FOLD", "divisor %d" % div[1])
    if fact_implies_ge(facts, div, 1):
        return ("GUARD-DOM", "dominating guard implies %s >= 1" % describe(div, body))
    if div[0] == "call" and div[1] in ("std::cmp::max", "usize::max", "Ord::max") and len(div[2]) == 2:
        for k in div[2]:
            if k[0] == "int" and k[1] >= 1:
                return ("DEF-MAX", "divisor is max(_, %d)" % k[1])
    return None


def schema_suffix_len(prog, o, a, b):
    """len(x) - len(suffix-of-x)  /  len(x) - len(prefix-of-x)."""
    if a[0] == "call" and a[1] in LEN_FUNS and b[0] == "call" and b[1] in LEN_FUNS:
        x = a[2][0]
        y = b[2][0]
        if y[0] == "call" and y[1] in ("str::trim_start_matches", "str::trim_start", "str::trim_end_matches",
                                       "str::trim_end", "str::trim", "str::trim_matches") and y[2][0] == x:
            return ("S2 sub-slice-len", "%s is a sub-slice of %s, so its length is not larger" % (
                describe(y, o.body), describe(x, o.body)))
    return None


def closure_return_term(prog, closure_term):
    """Simplified return term of a closure given its ('closure', key, captures) term."""
    if closure_term[0] != "closure":
        return None, None
    cb = prog.body(closure_term[1])
    if cb is None or len(cb.cfg.returns) != 1:
        return None, None
    s = sym_of(cb)
    r = cb.cfg.returns[0]
    ret = prog.simp(s.val((0, ()), r, "term"), cb)
    if cb.kind != "closure":
        # a plain fn used as a function value: its arguments start at 1, a closure's at 2
        ret = _shift_params(ret)
    return cb, ret


def _shift_params(t):
    if not isinstance(t, tuple) or not t:
        return t
    if t[0] == "param" and len(t) == 3 and isinstance(t[1], int):
        return ("param", t[1] + 1, t[2])
    return tuple(_shift_params(x) if isinstance(x, tuple) else x for x in t)


def flatten_add(t):
    if t[0] == "bin" and t[1] == "Add":
        return flatten_add(t[2]) + flatten_add(t[3])
    return [t]


def subst(term, mapping):
    if not isinstance(term, tuple) or not term:
        return term
    if term in mapping:
        return mapping[term]
    return tuple(subst(x, mapping) if isinstance(x, tuple) else x for x in term)


def sum_parts(prog, t):
    """If t is iter().map(g).sum() over slice S return (S, closure body, [summands of g(e)], param term)."""
    if t[0] != "call" or t[1] != "Iterator::sum":
        return None
    m = t[2][0]
    if m[0] != "call" or m[1] != "Iterator::map" or len(m[2]) != 2:
        return None
    it, clo = m[2]
    if it[0] != "call" or it[1] not in ("[]::iter", "Vec::iter") or clo[0] != "closure":
        return None
    S = it[2][0]
    cb, ret = closure_return_term(prog, clo)
    if cb is None:
        return None
    param = None
    for st in subterms(ret):
        if st[0] == "param" and st[1] == 2:
            param = st
    return (S, cb, flatten_add(ret), param)


def schema_member_of_sum(prog, o, a, b):
    sp = sum_parts(prog, a)
    if sp is None:
        return None
    S, cb, summands, param = sp
    # b must be a summand of g(e) with e an element of S
    for e_src in subterms(b):
        if e_src[0] == "field" and e_src[1][0] == "as" and e_src[1][2] == "Some" and e_src[2] == "0":
            c = e_src[1][1]
            if c[0] == "call" and c[1] in ("[]::last", "[]::first") and c[2][0] == S:
                if param is None:
                    continue
                inst = [subst(x, {param: e_src}) for x in summands]
                if b in inst:
                    return ("MEMBER-OF-SUM", "%s is a summand of the element function at %s of the same slice"
                            % (describe(b, o.body), c[1]))
    return None


def nonempty_result_fn(prog, key):
    """Does local fn `key` return a Vec onto which a push dominates every return?"""
    fb = prog.body(key)
    if fb is None or not fb.cfg.returns:
        return None
    s = sym_of(fb)
    ok_all = True
    why = None
    for r in fb.cfg.returns:
        v = s.val((0, ()), r, "term")
        # _0 = move _v ; find root local
        root = None
        if v[0] == "mut":
            root = v[3]
        elif v[0] == "phi":
            root = v[2]
        if v[0] == "adt" and v[2] == "Ok" and v[3]:
            inner = v[3][0][1]
            if inner[0] in ("mut", "phi"):
                root = inner[3] if inner[0] == "mut" else inner[2]
        if root is None:
            return None
        pushes = []
        bad = []
        for b, t, cal in fb.calls():
            roots = s.mut_calls().get(b, [])
            if any(r_ == root for r_ in roots):
                if cal.name in ("Vec::push",):
                    pushes.append(b)
                elif cal.name in ("[]::reverse", "Vec::reserve", "Vec::extend#no"):
                    pass
                elif cal.tname in ("DerefMut::deref_mut",):
                    pass
                else:
                    bad.append((b, cal.name))
        if bad:
            return None
        if not any(fb.cfg.dominates(p, r) for p in pushes):
            ok_all = False
        else:
            why = "push at bb%d dominates return" % [p for p in pushes if fb.cfg.dominates(p, r)][0]
    return why if ok_all else None


def schema_nonempty_result(prog, o, a, b):
    if b != ("int", 1):
        return None
    if a[0] == "call" and a[1] in ("Vec::len", "[]::len"):
        v = a[2][0]
        if v[0] == "call" and v[1].startswith("crate::"):
            why = nonempty_result_fn(prog, v[1])
            if why:
                return ("NONEMPTY-RESULT", "%s returns a Vec with %s" % (v[1], why))
    return None


def schema_nonempty_string(prog, o, a, b, facts):
    """len(s) - 1 under a dominating `s.ends_with(<char>)`."""
    if b != ("int", 1) or a[0] != "call" or a[1] not in ("String::len", "str::len"):
        return None
    sv = a[2][0]
    for atom, pol in facts:
        if pol and atom[0] == "b" and atom[1][0] == "call" and atom[1][1] in ("str::ends_with", "str::starts_with"):
            if atom[1][2][0] == sv and atom[1][2][1][0] == "char":
                return ("GUARD-PREFIX", "dominated by %s(%s, one char): the string is non-empty" % (
                    atom[1][1], describe(sv, o.body)))
    return None


def schema_bounded_accumulator(prog, o, a, b):
    """acc + f(ch): acc is a loop phi / closure state whose every definition is 0,
    itself, f(ch) or acc + f(ch) with f in {ch_width, len_utf8} of an item of a
    chars()/char_indices() iteration: acc <= byte length of the string (A-uw)."""
    body = o.body
    F = ("crate::core::ch_width", "char::len_utf8")
    if not (b[0] == "call" and b[1] in F):
        a, b = b, a
    if not (b[0] == "call" and b[1] in F):
        return None
    if not char_item(prog, body, b[2][0]):
        return None
    ok, why = state_defs_ok(prog, body, a, lambda t, self_t: _acc_def_ok(prog, body, t, self_t, F))
    if ok:
        return ("ACC-LE-LEN", "accumulator only ever holds 0 or sums of %s over distinct chars of one str (%s)"
                % ("/".join(x.split("::")[-1] for x in F), why))
    return None


def end_char(prog, body, c):
    """c is an Option<char> taken from one end of a str: returns ("front"|"back", str term)
    for next / next_back / last on chars() with rev() folded in; None otherwise."""
    side = None
    src = None
    if c[0] == "callm" and c[1] in ("Iterator::next", "DoubleEndedIterator::next_back"):
        side = "front" if c[1] == "Iterator::next" else "back"
        src = resolve_iter(prog, body, c[2][0], c[3][1])
    elif c[0] == "call" and c[1] == "Iterator::last" and len(c[2]) == 1:
        side = "back"
        src = c[2][0]
    if src is None:
        return None
    for _ in range(4):
        if src[0] == "call" and src[1] == "Iterator::rev" and len(src[2]) == 1:
            side = "back" if side == "front" else "front"
            src = src[2][0]
        else:
            break
    if src[0] == "call" and src[1] == "str::chars" and len(src[2]) == 1:
        return (side, src[2][0])
    return None


def char_item(prog, body, t):
    r = item_source(prog, body, t)
    if r is None:
        return False
    src, path, call = r
    chain, root, _ = iter_chain(src)
    for name in chain:
        if name in ("Iterator::by_ref", "IntoIterator::into_iter"):
            continue
        if name == "str::chars":
            return path == ["0"]
        if name == "str::char_indices":
            return path == ["0", "1"]
        return False
    return False


def _acc_def_ok(prog, body, t, self_terms, F):
    if t == ("int", 0) or t in self_terms:
        return True
    if t[0] == "call" and t[1] in F and char_item(prog, body, t[2][0]):
        return True
    if t[0] == "bin" and t[1] == "Add":
        x, y = t[2], t[3]
        for p, q in ((x, y), (y, x)):
            if p in self_terms and q[0] == "call" and q[1] in F and char_item(prog, body, q[2][0]):
                return True
    return False


def state_defs_ok(prog, body, t, pred, stop=None):
    """t is a loop phi, an upvar (closure state) or a phi over those.  Collect all
    definitions (phi inputs; for upvars also every write to the capture in the
    closure and the initial value in the parent) and test each with pred(def, selfterms)."""
    s = sym_of(body)
    selfs = set()
    defs = set()
    work = [t]
    upvars = set()
    while work:
        x = work.pop()
        if x in selfs:
            continue
        if x[0] == "phi" and stop is not None and x != t and stop(x):
            defs.add(x)          # a merged value with a meaning of its own (e.g. a position counter): not expanded
            continue
        if x[0] == "phi":
            selfs.add(x)
            for p, v in s.phi_inputs(x).items():
                work.append(prog.simp(v, body))
        elif x[0] == "upvar":
            selfs.add(x)
            upvars.add(x[1])
        else:
            defs.add(x)
        if len(selfs) > 50:
            return False, "too many"
    if not selfs:
        return False, "not a state variable"
    notes = []
    for uv in upvars:
        # all writes to the capture inside this closure
        idx = None
        for i, n in enumerate(body.upvars):
            nn = n[len("_ref__"):] if n.startswith("_ref__") else n
            if nn == uv:
                idx = i
        if idx is None:
            return False, "upvar?"
        for b in sorted(body.cfg.reach):
            for i, st in enumerate(body.blocks[b]["stmts"]):
                if st["k"] == "assign":
                    pk = s.lhs_pk(b, i)
                    if pk[0] == 1 and any(isinstance(e, tuple) and e[0] == "f" and e[1] == idx for e in pk[1][:2]):
                        defs.add(prog.simp(s.rvalue(st["rv"], b, i), body))
        for b, roots in s.mut_calls().items():
            for r in roots:
                if r[0] == 1 and any(isinstance(e, tuple) and e[0] == "f" and e[1] == idx for e in r[1][:2]):
                    return False, "capture passed as &mut"
        init = upvar_initial(prog, body, uv)
        if init is None:
            return False, "no initial value for capture"
        defs.add(init)
        notes.append("capture `%s` starts at %s" % (uv, describe(init, body)))
    for d in defs:
        if not pred(d, selfs):
            return False, "definition %s" % describe(d, body)
    return True, "; ".join(notes) if notes else "loop-carried"


def upvar_initial(prog, cbody, name):
    """Value a by-value capture is created with, if it is a constant in the parent."""
    parent = prog.body(cbody.parent) if cbody.parent else None
    if parent is None:
        return None
    s = sym_of(parent)
    for b in sorted(parent.cfg.reach):
        for i, st in enumerate(parent.blocks[b]["stmts"]):
            if st["k"] == "assign" and st["rv"]["k"] == "agg" and st["rv"].get("ak") == "closure" \
                    and "crate::" + __import__("twlint.mir", fromlist=["strip_generics"]).strip_generics(st["rv"]["closure"]) == cbody.key:
                v = s.rvalue(st["rv"], b, i)
                for n, val in v[2]:
                    nn = n[len("_ref__"):] if n.startswith("_ref__") else n
                    if nn == name:
                        return prog.simp(val, parent)
    return None


def upvar_in_closure_terms(prog, cbody, name):
    """Initial value of capture `name`, rewritten so that sub-terms equal to other
    captures' parent values become ('upvar', thatname): comparable with terms of
    the closure body."""
    parent, env = closure_env(prog, cbody)
    if env is None or name not in env:
        return None
    v = env[name]
    mapping = {}
    for n, pv in env.items():
        if n != name and not n.endswith("#state") and isinstance(pv, tuple) \
                and pv[0] not in ("int", "bool", "char", "str", "float", "unit"):
            parts = n.split("__")
            ut = ("upvar", parts[0])
            for fld in parts[1:]:
                ut = ("field", ut, fld)
            mapping[pv] = ut
    v2 = subst(v, mapping)
    # a capture of a whole struct (e.g. `self`) whose field is used
    return v2


def closure_env(prog, cbody):
    """{capture name: value term in the parent} for a closure body."""
    from ..mir import strip_generics
    parent = prog.body(cbody.parent) if cbody.parent else None
    if parent is None:
        return None, None
    s = sym_of(parent)
    for b in sorted(parent.cfg.reach):
        for i, st in enumerate(parent.blocks[b]["stmts"]):
            if st["k"] == "assign" and st["rv"]["k"] == "agg" and st["rv"].get("ak") == "closure" \
                    and "crate::" + strip_generics(st["rv"]["closure"]) == cbody.key:
                v = s.rvalue(st["rv"], b, i)
                env = {}
                for n, val in v[2]:
                    nn = n[len("_ref__"):] if n.startswith("_ref__") else n
                    if val[0] in ("mut", "phi"):
                        pk = val[3] if val[0] == "mut" else val[2]
                        o = _iterator_origin(prog, parent, pk, val)
                        if o is not None:
                            env[nn + "#state"] = prog.simp(val, parent)
                            val = o
                    env[nn] = prog.simp(val, parent)
                # disjoint field captures `a__f` whose value is `V.f`: add the synthetic base capture a = V
                for nn in list(env):
                    if "__" in nn and not nn.endswith("#state"):
                        parts = nn.split("__")
                        v = env[nn]
                        okb = True
                        for fld in reversed(parts[1:]):
                            if v[0] == "field" and v[2] == fld:
                                v = v[1]
                            else:
                                okb = False
                                break
                        if okb:
                            env.setdefault(parts[0], v)
                return parent, env
    return parent, None


# ----------------------------------------------------------------------
# bounds checks
# ----------------------------------------------------------------------
def schema_bounds(prog, o):
    if o.kind != "assert:BoundsCheck":
        return None
    idx, ln = o.terms[0], o.terms[1]
    body = o.body
    if idx[0] == "int" and ln[0] == "int" and idx[1] < ln[1]:
        return ("CONST-INDEX", "%d < %d" % (idx[1], ln[1]))
    facts = facts_at(prog, body, o.block)
    from ..poly import poly as _poly, GT0 as _GT0, fact_nf as _fact_nf
    d = _poly(ln) - _poly(idx)
    if d.is_const() and d.const_value() >= 1:
        return ("LEN-MINUS-K", "index is len - %d (the subtraction is its own obligation)" % d.const_value())
    if _GT0(d) in {_fact_nf(f) for f in facts if f[0][0] == "cmp"}:
        return ("GUARD-DOM", "dominating guard implies %s < %s" % (describe(idx, body), describe(ln, body)))
    rb = _range_item_end(prog, body, idx)
    if rb is not None and _poly(rb) == _poly(ln):
        return ("RANGE-ITEM", "index is an item of the range 0..%s" % describe(ln, body))
    # as_bytes()[lf - 1] with lf = find(..) payload, lf != 0
    if ln[0] == "call" and ln[1] == "[]::len" and ln[2][0][0] == "call" and ln[2][0][1] == "str::as_bytes":
        sx = ln[2][0][2][0]
        if idx[0] == "bin" and idx[1] == "Sub" and idx[3][0] == "int":
            base = index_iter_base(prog, body, idx[2])
            if base and base[0] == sx:
                return ("S5 find-offset", "index is (offset found in the same str) - %d, offset < len" % idx[3][1])
        base = index_iter_base(prog, body, idx)
        if base and base[0] == sx:
            return ("S5 find-offset", "index is an offset found in the same str")
    return None


# ----------------------------------------------------------------------
# str / slice indexing
# ----------------------------------------------------------------------
def range_parts(r):
    """(kind, start, end) from a Range/RangeFrom/RangeTo adt term or a plain index."""
    if r[0] == "adt":
        nm = r[1].split("::")[-1]
        f = dict(r[3])
        if nm == "Range":
            return ("range", f.get("start"), f.get("end"))
        if nm == "RangeFrom":
            return ("from", f.get("start"), None)
        if nm == "RangeTo":
            return ("to", None, f.get("end"))
        if nm == "RangeFull":
            return ("full", None, None)
        if nm == "RangeInclusive" or nm == "RangeToInclusive":
            return ("incl", f.get("start"), f.get("end"))
    return ("at", r, None)


def split_const(t):
    """(atom term or None, integer constant) if t is `atom + k` in any arrangement, else (None, None)."""
    from ..poly import poly
    p = poly(t)
    k = p.m.get((), 0)
    rest = [(mon, c) for mon, c in p.m.items() if mon != ()]
    if not rest:
        return (None, int(k)) if k == int(k) else (None, None)
    if len(rest) == 1 and len(rest[0][0]) == 1 and rest[0][1] == 1 and k == int(k):
        return (rest[0][0][0], int(k))
    return (None, None)


def boundary_of(prog, body, x, base, facts, depth=0):
    """Is term x provably a char boundary (0 <= x <= len) of str term `base`?
    Returns a reason string or None."""
    if depth > 6:
        return None
    if x == ("int", 0):
        return "0"
    if x[0] == "call" and x[1] in ("str::len", "String::len"):
        y = x[2][0]
        if y == base:
            return "len(base)"
        # prefix of base
        if y[0] == "call" and y[1] in ("str::trim_end_matches", "str::trim_end") and y[2][0] == base:
            return "len(prefix %s)" % y[1]
        for atom, pol in facts:
            if pol and atom[0] == "b" and atom[1][0] == "call" and atom[1][1] == "str::starts_with" \
                    and atom[1][2] == (base, y):
                return "len of a prefix: dominated by starts_with(base, p)"
    if x[0] == "bin" and x[1] == "Sub":
        a, b = x[2], x[3]
        if a[0] == "call" and a[1] in ("str::len",) and a[2][0] == base and b[0] == "call" and b[1] == "str::len":
            y = b[2][0]
            if y[0] == "call" and y[1] in ("str::trim_start_matches", "str::trim_start") and y[2][0] == base:
                return "len(base) - len(suffix %s)" % y[1]
    if x[0] == "int" and x[1] >= 1 and base[0] == "call" and base[1] == "Index::index" and len(base[2]) == 2:
        # base = S[m..] where m is the offset of a match of a constant char of UTF-8 length x in S
        kind0, st0, _en0 = range_parts(base[2][1])
        if kind0 == "from" and st0 is not None:
            ib0 = index_iter_base(prog, body, st0)
            if ib0 is not None and ib0[0] == base[2][0] and ib0[1] in ("str::match_indices", "find"):
                pat = ib0[2][2][1]
                if pat[0] == "char" and _utf8_len(pat[1]) == x[1]:
                    return "the suffix starts with the matched U+%04X, whose UTF-8 length is %d" % (pat[1], x[1])
    if x[0] == "call" and x[1] == "Option::unwrap_or" and len(x[2]) == 2:
        # o.unwrap_or(d): the payload of o and the default are both boundaries
        pay = boundary_of(prog, body, ("field", ("as", x[2][0], "Some"), "0"), base, facts, depth + 1)
        dflt = boundary_of(prog, body, x[2][1], base, facts, depth + 1)
        if pay and dflt:
            return "%s, else %s" % (pay, dflt)
        return None
    ib = index_iter_base(prog, body, x)
    if ib is not None:
        if ib[0] == base:
            return "offset yielded by %s over the same str" % ib[1]
        # zip/prefix relation: iterating a prefix/sub-slice is not the same string
        return None
    atom_, k_ = split_const(x) if x[0] == "bin" and x[1] == "Add" else (None, None)
    if atom_ is not None and k_ is not None and k_ >= 1:
        ib = index_iter_base(prog, body, atom_)
        if ib is not None and ib[0] == base:
            k = k_
            # pattern must be a constant char of UTF-8 length k
            pat = None
            if ib[1] == "str::match_indices":
                pat = ib[2][2][1]
            elif ib[1] == "find":
                pat = ib[2][2][1]
            if pat is not None and pat[0] == "char" and _utf8_len(pat[1]) == k:
                return "offset of a match of U+%04X plus its UTF-8 length %d" % (pat[1], k)
    if x[0] == "bin" and x[1] == "Sub" and x[3] == ("int", 1):
        ib = index_iter_base(prog, body, x[2])
        if ib is not None and ib[0] == base:
            # the byte before the offset must be a known ASCII byte (1-byte char)
            want = ("index", ("call", "str::as_bytes", (base,)), x)
            for atom, pol in facts:
                if pol and atom[0] == "inteq" and atom[1] == want and int(atom[2]) < 0x80:
                    return "offset - 1 where the byte at offset - 1 is the ASCII byte %s" % atom[2]
                if pol and atom[0] == "cmp" and atom[1] == "Eq" and want in (atom[2], atom[3]):
                    other = atom[3] if atom[2] == want else atom[2]
                    if other[0] == "int" and other[1] < 0x80:
                        return "offset - 1 where the byte at offset - 1 is the ASCII byte %d" % other[1]
    if x[0] == "phi" and body.cfg.loop_of_header(x[1]) is None:
        # a merge of several values (if/else, match): every incoming value must be a boundary
        # under the facts known on its own predecessor edge
        s_ = sym_of(body)
        ins = s_.phi_inputs(x)
        if ins and all(boundary_of(prog, body, prog.simp(v, body), base, facts_at(prog, body, p), depth + 1) is not None
                       for p, v in ins.items()):
            return "merge of values that are each a boundary on their own path"
    if x[0] in ("phi", "upvar"):
        ok, why = state_defs_ok(prog, body, x, lambda d, selfs: d in selfs or
                                boundary_of(prog, body, d, base, facts, depth + 1) is not None)
        if ok:
            return "state variable whose every definition is a boundary (%s)" % why
    return None


def _utf8_len(cp):
    return 1 if cp < 0x80 else 2 if cp < 0x800 else 3 if cp < 0x10000 else 4


def schema_index(prog, o):
    if o.kind not in ("call:Index::index", "call:IndexMut::index_mut"):
        return None
    body = o.body
    base, rng = o.terms[0], o.terms[1]
    recv = ty_head(o.extra.get("recv") or "")
    kind, st, en = range_parts(rng)
    facts = facts_at(prog, body, o.block)
    if recv in ("str", "String"):
        if kind == "full":
            return ("CONST-INDEX", "full range")
        rs = boundary_of(prog, body, st, base, facts) if st is not None else "open"
        re_ = boundary_of(prog, body, en, base, facts) if en is not None else "open"
        if rs and re_:
            if kind == "range":
                order = order_ok(prog, body, o, st, en, base, facts)
                if not order:
                    return None
                return ("S3 char-scan", "start: %s; end: %s; order: %s" % (rs, re_, order))
            return ("S1-S4 boundary", "start: %s; end: %s" % (rs, re_))
        return None
    if recv in ("[]", "Vec"):
        if kind == "at":
            return None
        okb = True
        notes = []
        for bnd in (st, en):
            if bnd is None:
                continue
            why = slice_bound_ok(prog, body, bnd, base, facts)
            if not why:
                okb = False
            notes.append(why)
        if okb:
            if kind == "range" and not (fact_le(facts, st, en) or fact_lt(facts, st, en)):
                return None
            return ("SLICE-BOUNDS", "; ".join(notes) + ("; dominating guard orders the bounds" if kind == "range" else ""))
    return None


def _range_item_end(prog, body, x):
    """x is an item yielded by iterating a Range { start, end }: the end term (x < end), else None."""
    r = item_source(prog, body, x)
    if r is None:
        return None
    src, path, call = r
    if path == ["0"] and src[0] == "adt" and src[2] == "Range":
        return dict(src[3]).get("end")
    return None


def slice_bound_ok(prog, body, x, base, facts):
    if x == ("int", 0):
        return "0"
    rb_ = _range_item_end(prog, body, x)
    if rb_ is not None and rb_[0] == "call" and rb_[1] in ("[]::len", "Vec::len") and rb_[2][0] == base:
        return "item of the range 0..len(base) (< len)"
    if x[0] == "call" and x[1] in ("[]::len", "Vec::len") and x[2][0] == base:
        return "len(base)"
    if x[0] == "bin" and x[1] == "Sub" and x[2][0] == "call" and x[2][1] in ("[]::len", "Vec::len") \
            and x[2][2][0] == base:
        return "len(base) - k (the subtraction is its own obligation)"
    # enumerate index over base.iter()
    r = item_source(prog, body, x)
    if r is not None:
        src, path, call = r
        chain, root, _ = iter_chain(src)
        names = [n for n in chain if n not in ("IntoIterator::into_iter", "Iterator::by_ref")]
        if names[:2] == ["Iterator::enumerate", "[]::iter"] and path == ["0", "0"] and root == base:
            return "enumerate index over the same slice (< len)"
    if x[0] == "phi" and iter_counter_base(prog, body, x) == base:
        return "position counter of the loop over the same slice (<= len)"
    if x[0] == "phi":
        ok, why = state_defs_ok(prog, body, x, lambda d, selfs: d in selfs or slice_bound_ok(prog, body, d, base, facts),
                                stop=lambda y: iter_counter_base(prog, body, y) == base)
        if ok:
            return "state variable whose every definition is an in-range index"
    return None


def order_ok(prog, body, o, st, en, base, facts):
    """start <= end for a two-sided str range."""
    if st == ("int", 0):
        return "start is 0"
    if fact_le(facts, st, en) or fact_lt(facts, st, en):
        return "dominating guard"
    ib = index_iter_base(prog, body, en)
    if ib is None or ib[0] != base or ib[1] not in INDEX_ITERS:
        return None
    # every definition of the start state is 0, len(base) after exhaustion, or an
    # earlier item of the same strictly increasing iterator
    en_call = _strip_item(en)[0]
    s = sym_of(body)

    def ok_def(d, selfs):
        if d in selfs or d == ("int", 0):
            return True
        c = _strip_item(d)[0]
        if c is not None and en_call is not None and c[1] == en_call[1] and c[2] == en_call[2]:
            ib2 = index_iter_base(prog, body, d)
            return ib2 is not None and ib2[0] == base
        if d[0] == "call" and d[1] == "str::len" and d[2][0] == base:
            return _len_def_after_exhaustion(prog, body, en_call)
        return False
    okk, why = state_defs_ok(prog, body, st, ok_def)
    if okk:
        return "start only holds 0, earlier offsets of the same increasing iterator, or len after exhaustion"
    return None


def _len_def_after_exhaustion(prog, body, next_call):
    """Every assignment of len(base) to the state happens on a path where the
    iterator's next() returned None (so no later ranged slice uses a smaller end)."""
    # conservative structural check: the next() call site's None edge dominates all
    # blocks that assign a `str::len` value to a capture / loop variable
    s = sym_of(body)
    site = next_call[3][1]
    sw = body.blocks[site]["term"].get("target")
    if sw is None:
        return False
    none_succ = None
    for succ in body.cfg.succ[sw]:
        for lit in s.edge_literals(sw, succ):
            if (lit[0] == "is" and lit[2] == "0") or (lit[0] == "isnot" and lit[2] == ("1",)):
                none_succ = succ
    if none_succ is None:
        return False
    for b in sorted(body.cfg.reach):
        for i, stt in enumerate(body.blocks[b]["stmts"]):
            if stt["k"] != "assign":
                continue
            pk = s.lhs_pk(b, i)
            named = body.place_name(stt["place"]) is not None or pk[0] == 1
            if not named:
                continue
            v = prog.simp(s.rvalue(stt["rv"], b, i), body)
            if v[0] == "call" and v[1] == "str::len":
                if not body.cfg.edge_dominates(sw, none_succ, b):
                    return False
    return True


# ----------------------------------------------------------------------
# termination
# ----------------------------------------------------------------------
def finite_source(prog, body, src, depth=0):
    """Reason why an iterator source term is finite, or None."""
    if src is None or depth > 10:
        return None
    if src[0] == "mutref":
        return None
    if src[0] == "adt":
        nm = src[1].split("::")[-1]
        if nm == "Range":
            return "Range<usize>"
        if src[1].startswith("line_ending::NonEmptyLines") or nm == "NonEmptyLines":
            # finite because every Some-returning call of NonEmptyLines::next removes at least the line feed
            # from the remaining text or empties it: rule C15.R7, evaluated in the same run
            from .. import lemmas as _lem
            _lem.load_all()
            if _lem.status(prog, "C15.R7") == "ok":
                return "NonEmptyLines (each item shortens the remaining text: C15.R7)"
            return None
    if src[0] in ("call", "callm"):
        name = src[1]
        if name in FINITE_ROOT_CALLS:
            return name
        if name in ADAPTERS or name in ("Iterator::enumerate",):
            inner = finite_source(prog, body, src[2][0], depth + 1)
            if name == "Iterator::zip":
                other = finite_source(prog, body, src[2][1], depth + 1)
                inner = inner or other
            return ("%s(%s)" % (name.split("::")[-1], inner)) if inner else None
        if name in ("Vec::into_iter", "Vec::drain"):
            return name
        if name == "Iterator::collect":
            return "collected Vec"
        if name.startswith("crate::"):
            # a crate function returning a Vec / iterator: Vec is finite by construction
            fb = prog.body(name)
            if fb is not None:
                ret = fb.local_ty(0)
                if ty_head(ret) in ("Vec", "String"):
                    return "Vec returned by %s" % name
                # a crate function returning iter::from_fn(closure) whose closure is FROMFN-FINITE
                if len(fb.cfg.returns) == 1:
                    rv = prog.simp(sym_of(fb).val((0, ()), fb.cfg.returns[0], "term"), fb)
                    if rv[0] == "call" and rv[1] == "std::iter::from_fn" and rv[2] and rv[2][0][0] == "closure":
                        cb = prog.body(rv[2][0][1])
                        why = fromfn_finite(prog, cb) if cb is not None else None
                        if why:
                            return "from_fn iterator returned by %s (%s)" % (name, why)
        if name in ("Vec::new", "Vec::with_capacity"):
            return "Vec"
    if src[0] == "param":
        return None
    if src[0] in ("mut", "phi"):
        ty = None
        pk = src[3] if src[0] == "mut" else src[2]
        owner = body
        if src[0] == "mut" and isinstance(src[1], tuple) and prog.body(src[1][0]) is not None:
            owner = prog.body(src[1][0])      # the place belongs to the body of the mutation site (e.g. the closure's parent)
        if pk[0] != "opaque":
            ty = ty_head(owner.local_ty(pk[0])) if not pk[1] else None
        if ty in ("Vec", "String"):
            return "Vec"
    return None


def schema_loop(prog, o):
    if o.kind != "loop":
        return None
    lm = o.extra["lm"]
    body = o.body
    if lm.kind == "iter":
        # every path round the loop passes the next() call: it is in the header chain
        why = finite_source(prog, body, lm.source)
        it_ty = None
        if lm.iter_pk and lm.iter_pk[0] != "opaque" and not lm.iter_pk[1]:
            it_ty = body.local_ty(lm.iter_pk[0])
        if why is None and it_ty is not None:
            why = finite_iter_type(prog, body, it_ty, lm)
        if why is None and lm.source is not None and lm.source[0] == "param":
            why = finite_param_iter(prog, body, lm)
        if why:
            o.extra["finite"] = why
            return ("ITER-DRIVEN", "each iteration consumes one item of a finite iterator: %s" % why)
        return None
    return None


def finite_iter_type(prog, body, ty, lm):
    h = ty_head(ty)
    if h in ("Chars", "CharIndices", "Lines", "Split", "SplitTerminator", "MatchIndices", "Iter", "IntoIter",
             "Range", "Bytes"):
        return "std iterator type %s" % h
    if h in ("Enumerate", "Zip") and finite_type(ty):
        # generic adapters are finite if their type arguments are finite std iterators
        return "std iterator type %s" % h
    return None


def finite_param_iter(prog, body, lm):
    """Loop over a generic parameter `I: IntoIterator` / `&mut I: Iterator`: finite if
    every crate call site passes a finite iterator (checked by the caller rule)."""
    return None


# ----------------------------------------------------------------------
# RefCell
# ----------------------------------------------------------------------
def schema_refcell(prog, o):
    if o.kind not in ("call:RefCell::borrow", "call:RefCell::borrow_mut"):
        return None
    body = o.body
    s = sym_of(body)
    t = body.blocks[o.block]["term"]
    guard_local = t["dest"]["l"]
    cell = o.terms[0]
    # find where the guard is dropped: a drop terminator on the guard local
    drops = [b for b in sorted(body.cfg.reach) if body.blocks[b]["term"]["k"] == "drop"
             and body.blocks[b]["term"]["place"]["l"] == guard_local and not body.blocks[b]["term"]["place"]["p"]]
    if not drops:
        return None
    # blocks where the guard may be live: reachable from the borrow without passing a drop
    live = set()
    st = [t["target"]] if "target" in t else []
    while st:
        x = st.pop()
        if x in live:
            continue
        live.add(x)
        if x in drops:
            continue
        st.extend(body.cfg.succ[x])
    for b in live:
        if b in drops:
            continue
        tt = body.blocks[b]["term"]
        if tt["k"] != "call":
            continue
        cal = body.callee(b)
        if cal.name in ("RefCell::borrow", "RefCell::borrow_mut"):
            return None
        if cal.indirect:
            return None
        if cal.local_key:
            # may it touch the same cell? any crate function that borrows a RefCell
            reach = prog.reachable_from([cal.local_key])
            for k in reach:
                fb = prog.body(k)
                for _b, _t, c2 in fb.calls():
                    if c2.name in ("RefCell::borrow", "RefCell::borrow_mut"):
                        return None
    return ("REFCELL-SCOPED", "guard dropped before any other borrow of a RefCell or re-entrant call (live over %d blocks)" % len(live))


# ----------------------------------------------------------------------
# miscellaneous call schemas
# ----------------------------------------------------------------------
DOCUMENTED_ASSERTS = {
    # (function, assertion message): documented precondition (C04/C20 statement)
    ("crate::columns::wrap_columns", "assertion failed: columns > 0"),
}


def schema_misc_call(prog, o):
    body = o.body
    k = o.kind
    facts = None
    if k == "call:str::repeat":
        return ("A-MEM", "the result itself has that many copies: failure only when the result could not fit in memory "
                "(C04's memory clause); the count's own arithmetic is a separate obligation")
    if k in ("call:Vec::with_capacity", "call:String::with_capacity"):
        # a capacity is only a hint: it must be bounded by the size of data that already exists (lengths and small
        # multiples of them), otherwise an ordinary call (e.g. width = usize::MAX) fails with "capacity overflow"
        size = o.terms[0] if o.terms else None
        u = ubound(prog, body, size, facts_at(prog, body, o.block)) if size is not None else None
        if u is not None and u <= 4 * LEN_MAX:
            return ("A-MEM", "capacity bounded by the length of existing data (<= %s): failure only when the result could "
                    "not fit in memory" % _fmt_bound(u))
        return None
    if k == "call:Vec::insert" and len(o.terms) >= 2 and o.terms[1] == ("int", 0):
        return ("INSERT-FRONT", "index 0 <= len for every Vec")
    if k == "call:str::split_at":
        x, mid = o.terms[0], o.terms[1]
        facts = facts_at(prog, body, o.block)
        if mid[0] == "call" and mid[1] == "str::len":
            p = mid[2][0]
            for atom, pol in facts:
                if pol and atom[0] == "b" and atom[1][0] == "call" and atom[1][1] == "str::starts_with" \
                        and atom[1][2][0] == x and atom[1][2][1] == p:
                    return ("GUARD-PREFIX", "dominated by starts_with(x, p): p.len() is a char boundary of x")
        why = boundary_of(prog, body, mid, x, facts)
        if why:
            return ("S1-S4 boundary", "split point: %s" % why)
    if k == "call:String::truncate":
        facts = facts_at(prog, body, o.block)
        n = o.terms[1]
        recv = o.terms[0]
        if n[0] == "bin" and n[1] == "Sub" and n[3][0] == "int" and n[2][0] == "call" and n[2][1] in ("String::len", "str::len"):
            sv = n[2][2][0]
            for atom, pol in facts:
                if pol and atom[0] == "b" and atom[1][0] == "call" and atom[1][1] == "str::ends_with" \
                        and atom[1][2][0] == sv and atom[1][2][1][0] == "char" \
                        and _utf8_len(atom[1][2][1][1]) == n[3][1]:
                    return ("GUARD-SUFFIX", "dominated by ends_with(s, c) with len_utf8(c) == %d" % n[3][1])
    if k == "call:core::panicking::panic":
        msg = o.terms[0] if o.terms else None
        if msg is not None and msg[0] == "str" and (body.key, msg[1]) in DOCUMENTED_ASSERTS:
            return ("DOC-ASSERT", "documented precondition %r" % msg[1])
    return None


# ----------------------------------------------------------------------
# more termination schemas
# ----------------------------------------------------------------------
FINITE_ITER_TYPES = {"Chars", "CharIndices", "Lines", "Split", "SplitTerminator", "MatchIndices", "Iter",
                     "IntoIter", "Range", "Bytes", "SplitWhitespace", "IterMut"}
ADAPTER_TYPES = {"Enumerate", "Zip", "Map", "Filter", "Rev", "Skip", "Take", "Peekable", "Copied", "Cloned"}


def finite_type(tystr):
    """Every iterator type constructor occurring in tystr is a finite std iterator
    or an adapter (closures and references are ignored)."""
    import re
    heads = re.findall(r"([A-Za-z_][A-Za-z0-9_]*)\s*<", tystr)
    names = [h for h in heads]
    if not names:
        # plain path like std::str::Chars
        names = [tystr.split("::")[-1].split("<")[0].strip()]
    ok_any = False
    for n in names:
        if n in FINITE_ITER_TYPES:
            ok_any = True
        elif n in ADAPTER_TYPES or n in ("Option",):
            continue
        else:
            return False
    return ok_any


def schema_loop2(prog, o):
    if o.kind != "loop":
        return None
    lm = o.extra["lm"]
    body = o.body
    s = sym_of(body)
    if lm.kind == "iter":
        # iterator reached through a capture / by_ref chain
        arg0 = lm.next_call[2][0] if lm.next_call and lm.next_call[2] else None
        if arg0 is not None:
            src = resolve_iter(prog, body, arg0, lm.next_block)
            if src is not None:
                why = finite_source(prog, body, src)
                if why:
                    return ("ITER-DRIVEN", "each iteration consumes one item of a finite iterator: %s" % why)
                # iterator is a function parameter: every crate call site must pass a finite iterator
                if src[0] == "param":
                    why = param_iter_finite(prog, body, src)
                    if why:
                        return ("ITER-DRIVEN/PARAM", why)
        return None
    # non-iterator loops
    r = loop_len_grows(prog, body, lm)
    if r:
        return r
    r = loop_string_shrinks(prog, body, lm)
    if r:
        return r
    r = loop_counter(prog, body, lm)
    if r:
        return r
    return None


def loop_counter(prog, body, lm):
    """COUNTER-LOOP: a usize variable i is increased by a positive constant on every path
    back to the header, and every such path runs under the guard i < n (or i + k <= n) for a
    loop-invariant n: the loop body is entered at most n times."""
    from ..paths import loop_state_vars, loop_system
    from ..poly import poly, Poly, fact_nf
    s = sym_of(body)
    sv = loop_state_vars(body, lm, types=("usize",))
    if not sv:
        return None
    trans = [t for t in loop_system(prog, body, lm, list(sv.keys()), []) if t.kind == "back"]
    if not trans:
        return None
    # terms that change inside the loop: loop phis of this loop's header
    for pk, (nm, ty) in sv.items():
        phi = s.val_entry(pk, lm.header)
        ok = True
        bound = None
        for tr in trans:
            d = poly(tr.next[pk]) - poly(phi)
            if not (d.is_const() and d.const_value() >= 1):
                ok = False
                break
            found = None
            for f in tr.facts:
                if f[0][0] != "cmp":
                    continue
                k, q = fact_nf(f)
                if k != "ge0":
                    continue
                # q = n - i - c  with c >= 1: extract n
                r = q + poly(phi)
                if phi in q.atoms() and phi not in r.atoms():
                    c = -r.const_value()
                    n = r + Poly.const(c)
                    if c >= 1 and n.m and _loop_invariant(body, lm, n):
                        found = n
            if found is None or (bound is not None and found != bound):
                ok = False
                break
            bound = found
        if ok and bound is not None:
            return ("COUNTER-LOOP", "%s increases on every path round the loop and is bounded by the loop-invariant %s"
                    % (nm, bound.show(lambda t: describe(t, body))))
    return None


def _loop_invariant(body, lm, p):
    """No atom of the polynomial is (or contains) a value that merges at a block of the loop or is produced in it."""
    from ..sym import subterms
    for a in p.atoms():
        for st in subterms(a):
            if st[0] == "phi" and st[1] in lm.blocks:
                return False
            if st[0] in ("callm", "mut"):
                return False
    return True


def param_iter_finite(prog, body, param):
    """All call sites in the crate pass a finite iterator for this parameter."""
    idx = param[1] - 1
    sites = 0
    notes = []
    for fb in prog.bodies():
        for b, t, cal in fb.calls():
            if cal.local_key != body.key:
                continue
            sites += 1
            a = t["args"][idx]
            if a["k"] not in ("copy", "move"):
                return None
            aty = a["place"]["ty"]
            fs = sym_of(fb)
            av = prog.simp(fs.operand(a, b, len(fb.blocks[b]["stmts"])), fb)
            if av[0] == "mutref" and av[1][0] != "opaque":
                pty = fb.local_ty(av[1][0]) if not av[1][1] else aty
                if finite_type(pty):
                    notes.append("%s passes &mut %s" % (fb.key.split("::")[-1], pty.split("::")[-1][:40]))
                    continue
                src = resolve_iter(prog, fb, av, b)
                if src is not None and finite_source(prog, fb, src):
                    notes.append("%s passes a finite iterator" % fb.key.split("::")[-1])
                    continue
                return None
            if finite_type(aty):
                notes.append("%s passes %s" % (fb.key.split("::")[-1], aty.split("::")[-1][:40]))
                continue
            return None
    if sites == 0:
        return None
    return "parameter iterator is finite at all %d crate call sites (%s)" % (sites, "; ".join(sorted(set(notes))))


def loop_len_grows(prog, body, lm):
    """while v.len() < E { ...; v.push(..) }  with E loop-invariant."""
    s = sym_of(body)
    r = _loop_len_grows_nf(prog, body, lm)
    if r:
        return r
    for a, b in lm.lp["exits"]:
        t = body.blocks[a]["term"]
        if t["k"] != "switch":
            continue
        cond = prog.simp(s.switch_value(a), body)
        if cond[0] == "bin" and cond[1] in ("Lt", "Le") and cond[2][0] == "call" and cond[2][1] == "Vec::len":
            bound = cond[3]
            if any(st[0] in ("phi", "mut", "callm") for st in subterms(bound)):
                continue
            # the vec being measured: look for a push on every path round the loop
            pushes = [blk for blk in lm.blocks if body.blocks[blk]["term"]["k"] == "call"
                      and body.callee(blk).name == "Vec::push"]
            for tsrc, h in lm.lp["back_edges"]:
                if not any(body.cfg.dominates(p, tsrc) for p in pushes):
                    return None
            if pushes:
                return ("LEN-GROWS", "loop runs while len(v) < %s and every iteration pushes" % describe(bound, body))
    return None


def _loop_len_grows_nf(prog, body, lm):
    """Same schema on normal forms: every path round the loop runs under len(v) < E (E loop-invariant, any
    spelling: `while len < E`, `loop { if len >= E { break } .. }`) and passes a push."""
    from ..paths import loop_system
    from ..poly import fact_nf, Poly
    backs = [t for t in loop_system(prog, body, lm, [], []) if t.kind == "back"]
    if not backs:
        return None
    pushes = [blk for blk in lm.blocks if body.blocks[blk]["term"]["k"] == "call" and body.callee(blk).name == "Vec::push"]
    if not pushes:
        return None
    for tsrc, h in lm.lp["back_edges"]:
        if not any(body.cfg.dominates(p, tsrc) for p in pushes):
            return None
    bound = None
    for t in backs:
        found = None
        for f in t.facts:
            if f[0][0] != "cmp":
                continue
            k, q = fact_nf(f)
            if k != "ge0":
                continue
            for a in q.atoms():
                if isinstance(a, tuple) and a[0] == "call" and a[1] == "Vec::len" and q.m.get((a,)) == -1:
                    e = q + Poly.atom(a) + Poly.const(1)        # len + 1 <= e'  ==>  len < e
                    if _loop_invariant(body, lm, e) and not any(x == a for x in e.atoms()):
                        found = (a, e)
        if found is None or (bound is not None and found != bound):
            return None
        bound = found
    return ("LEN-GROWS", "loop runs while %s < %s and every iteration pushes" % (
        describe(bound[0], body), bound[1].show(lambda t: describe(t, body))))


def _suffix_offset(v, root, depth=0):
    """v is root[a..][b..]...: a lower bound of the total start offset (usize atoms count as 0); None if
    v is not a chain of open-ended suffix slices of root."""
    if v == root:
        return 0
    if depth > 4 or not (v[0] == "call" and v[1] == "Index::index" and len(v[2]) == 2):
        return None
    kind, st_, en_ = range_parts(v[2][1])
    if kind != "from":
        return None
    at_, k_ = split_const(st_)
    if k_ is None or k_ < 0:
        return None
    inner = _suffix_offset(v[2][0], root, depth + 1)
    if inner is None:
        return None
    return inner + k_


def loop_string_shrinks(prog, body, lm):
    """Every back edge re-assigns a scanned &str to &s[k+1..] of its previous value."""
    s = sym_of(body)
    h = lm.header
    # find str-typed loop phis
    cands = []
    for b in lm.blocks:
        for i, st in enumerate(body.blocks[b]["stmts"]):
            if st["k"] == "assign" and st["place"]["ty"].strip().startswith("&") and "str" in st["place"]["ty"]:
                pk = s.lhs_pk(b, i)
                if body.place_name(st["place"]) or pk[0] <= body.arg_count:
                    cands.append(pk)
    for pk in cands:
        phi = s.val_entry(pk, h)
        if phi[0] != "phi":
            continue
        ins = s.phi_inputs(phi)
        ok = True
        n = 0
        for p, v in ins.items():
            if p not in lm.blocks:
                continue
            v = prog.simp(v, body)
            n += 1
            off = _suffix_offset(v, phi)
            if off is None or off < 1:
                ok = False
                break
        if ok and n > 0:
            return ("STRING-SHRINK", "every back edge replaces the scanned str by a strictly shorter suffix of itself")
    return None


# ----------------------------------------------------------------------
# from_fn closures
# ----------------------------------------------------------------------
def fromfn_finite(prog, cbody):
    """FROMFN-FINITE: every `Some` return of the closure either follows a
    successful next() on a finite captured iterator in the same invocation, or
    sits under guards on a captured state variable that the same path falsifies
    for later invocations."""
    s = sym_of(cbody)
    notes = []
    if not cbody.cfg.returns:
        return None
    r = cbody.cfg.returns[0]
    # blocks assigning Some(..) to _0
    some_blocks = []
    for b in sorted(cbody.cfg.reach):
        for i, st in enumerate(cbody.blocks[b]["stmts"]):
            if st["k"] == "assign" and st["place"]["l"] == 0 and not st["place"]["p"]:
                v = s.rvalue(st["rv"], b, i)
                if v[0] == "adt" and v[2] == "Some":
                    some_blocks.append(b)
                elif v[0] == "adt" and v[2] == "None":
                    pass
                else:
                    # e.g. `match it.next() { Some(x) => Some(..), None => None }` handled above;
                    # anything else: unknown
                    if not (v[0] == "phi"):
                        return None
    if not some_blocks:
        return None
    for sb in some_blocks:
        facts = facts_at(prog, cbody, sb)
        done = False
        # (a) dominated by Some-edge of next() on a finite captured iterator
        for atom, pol in facts:
            if pol and atom[0] == "variant" and atom[2] == "Some":
                c = atom[1]
                if c[0] == "callm" and c[1] in ("Iterator::next", "DoubleEndedIterator::next_back"):
                    src = resolve_iter(prog, cbody, c[2][0], c[3][1])
                    if src is not None and finite_source(prog, cbody, src):
                        notes.append("Some after consuming an item of %s" % finite_source(prog, cbody, src))
                        done = True
                        break
        if done:
            continue
        # (b) guard on a capture that the path falsifies
        paths = cbody.cfg.acyclic_paths(0, {sb})
        paths = [p for p in paths if p[-1] == sb]
        if not paths:
            return None
        okb = True
        for p in paths:
            pf = path_facts(prog, cbody, p)
            # new values written to captures on the path (incl. the Some block)
            writes = {}
            for blk in p:
                for i, st in enumerate(cbody.blocks[blk]["stmts"]):
                    if st["k"] == "assign":
                        pk = s.lhs_pk(blk, i)
                        if pk[0] == 1:
                            nm = cbody.place_name(st["place"])
                            if nm:
                                nm = nm[len("_ref__"):] if nm.startswith("_ref__") else nm
                                writes[("upvar", nm)] = prog.simp(s.rvalue(st["rv"], blk, i), cbody)
            fals = False
            for atom, pol in pf:
                if atom[0] != "cmp":
                    continue
                if _falsified(atom, pol, writes):
                    fals = True
                    break
            if not fals:
                okb = False
                break
        if okb:
            notes.append("Some under a guard that the same path falsifies for later calls")
            continue
        return None
    return "; ".join(sorted(set(notes)))


def _falsified(atom, pol, writes):
    """After `writes` (capture := term), is the fact (atom, pol) false?"""
    op, a, b = atom[1], atom[2], atom[3]
    a2 = writes.get(a, a)
    b2 = writes.get(b, b)
    if a2 == a and b2 == b:
        return False
    truth = _eval_cmp(op, a2, b2)
    if truth is None:
        return False
    return truth != pol


def _lin(t):
    """t as (base polynomial or None, integer offset), via the polynomial normal form."""
    from ..poly import poly as _poly, Poly
    p = _poly(t)
    k = p.const_value()
    base = p - Poly.const(k)
    if not base.m:
        return (None, k)
    return (base, k)


def _eval_cmp(op, a, b):
    """Truth of a op b when decidable from: x+k vs x+m, and len-like bases >= 0."""
    ba, ka = _lin(a)
    bb, kb = _lin(b)
    if ba == bb:
        return {"Lt": ka < kb, "Le": ka <= kb, "Eq": ka == kb}[op]
    # (len + k) vs constant 0 with k >= 1
    if bb is None and ba is not None and _nonneg(ba):
        if op == "Eq" and ka > kb:
            return False
        if op in ("Lt", "Le") and ka > kb:
            return False
    if ba is None and bb is not None and _nonneg(bb):
        if op == "Eq" and kb > ka:
            return False
        if op == "Lt" and kb > ka:
            return True
        if op == "Le" and kb >= ka:
            return True
    return None


def _nonneg(base):
    """A polynomial whose monomials are positive multiples of products of lengths."""
    return all(v > 0 and all(isinstance(a, tuple) and a[0] == "call" and a[1] in LEN_FUNS for a in mon)
               for mon, v in base.m.items())



"""Entry point behind /verif/check: run one property's rules over the tier's
configurations, apply KNOWN_FINDINGS, print VIOLATION lines, write evidence."""
import importlib
import json
import os
import sys
import time
import traceback

from . import facts as F
from .mir import Facts
from .engine import Program, Report, AnchorMissing

VERIF = os.path.dirname(os.path.dirname(os.path.abspath(__file__)))
KNOWN = os.path.join(VERIF, "KNOWN_FINDINGS.txt")
ALL_PROPS = ["C%02d" % i for i in range(1, 21)]

_PROGS = {}


def program_for(config, repo=None):
    key = (config, repo or F.REPO)
    if key not in _PROGS:
        raw, meta = F.export(config, repo=repo)
        _PROGS[key] = Program(Facts(raw, meta))
    return _PROGS[key]


def load_known():
    """[(property, key, text)] for KNOWN-FINDING lines; `fixed:` lines are informational."""
    out = []
    if not os.path.exists(KNOWN):
        return out
    for line in open(KNOWN):
        line = line.strip()
        if line.startswith("KNOWN-FINDING:"):
            rest = line[len("KNOWN-FINDING:"):].strip()
            parts = dict(p.split("=", 1) for p in rest.split(" ", 2)[:2] if "=" in p)
            text = rest.split(" ", 2)[2] if len(rest.split(" ", 2)) > 2 else ""
            out.append((parts.get("property"), parts.get("key"), text))
    return out


def run_property(prop, tier, repo=None, only_key=None):
    mod = importlib.import_module("twlint.props." + prop)
    rep = Report(prop)
    configs = mod.configs(tier)
    metas = []
    t0 = time.time()
    for c in configs:
        prog = program_for(c, repo)
        metas.append(prog.facts.meta)
        rep.set_config(c)
        try:
            mod.run(prog, rep)
        except AnchorMissing as e:
            rep.anchor_missing(prop + ".ANCHOR", str(e).split(" ")[1] if " " in str(e) else "?", str(e))
    wall = time.time() - t0
    return mod, rep, configs, metas, wall


def main(argv=None):
    argv = list(sys.argv[1:] if argv is None else argv)
    if not argv:
        print("usage: check <Cxx> [--tier quick|thorough] [--replay FILE] [--repo PATH]")
        return 2
    prop = argv[0]
    tier = os.environ.get("VERIF_TIER", "quick")
    replay = None
    repo = None
    i = 1
    while i < len(argv):
        if argv[i] == "--tier":
            tier = argv[i + 1]
            i += 2
        elif argv[i] == "--replay":
            replay = argv[i + 1]
            i += 2
        elif argv[i] == "--repo":
            repo = argv[i + 1]
            i += 2
        else:
            i += 1
    if tier not in ("quick", "thorough"):
        tier = "quick"
    try:
        seed = int(os.environ.get("VERIF_SEED", "0"))
    except ValueError:
        seed = 0
    if repo:
        F.REPO = repo
    t0 = time.time()
    try:
        mod, rep, configs, metas, wall = run_property(prop, tier, repo)
    except F.BrokenCheck as e:
        print("BROKEN-CHECK property=%s: %s" % (prop, e))
        return 2
    except Exception:
        traceback.print_exc(limit=-6)
        print("BROKEN-CHECK property=%s: internal error" % prop)
        return 2

    known = [(p, k, t) for (p, k, t) in load_known() if p == prop]
    known_keys = {k: t for _p, k, t in known}
    # de-duplicate violations across configurations by key
    by_key = {}
    for v in rep.violations:
        by_key.setdefault(v.key, []).append(v)
    new = {}
    listed = {}
    for k, vs in by_key.items():
        if k in known_keys:
            listed[k] = vs
        else:
            new[k] = vs
    if replay:
        try:
            want = json.load(open(replay)).get("key")
        except Exception:
            want = None
        new = {k: v for k, v in new.items() if k == want}

    vdir = os.path.join(VERIF, "evidence", "violations")
    exit_code = 0
    for k, vs in sorted(listed.items()):
        print("KNOWN-FINDING: property=%s %s (%s at %s)" % (prop, known_keys[k], k, vs[0].site))
    for k, vs in sorted(new.items()):
        os.makedirs(vdir, exist_ok=True)
        fn = os.path.join(vdir, "%s-%s.json" % (prop, _slug(k)))
        with open(fn, "w") as fh:
            json.dump({"property": prop, "key": k, "rule": vs[0].rule, "configs": sorted({v.config for v in vs}),
                       "site": vs[0].site, "message": vs[0].message, "detail": vs[0].detail,
                       "replay": "./check %s --replay %s" % (prop, fn)}, fh, indent=1, default=str)
        print("  %s: %s [%s] configs=%s" % (vs[0].site, vs[0].message, vs[0].rule,
                                            ",".join(sorted({v.config for v in vs}))))
        print("VIOLATION property=%s replay=%s" % (prop, fn))
        exit_code = 1

    sens = None
    if tier == "thorough" and not replay and os.environ.get("TWLINT_NO_SELFTEST") != "1":
        # sensitivity self-test: evidence about the checker, never about the property (exit code unchanged)
        try:
            from . import selftest
            sens = selftest.run(prop, repo or F.REPO, set(by_key))
            print("selftest %s: %d mutants, %d applicable to this tree, %d detected%s%s" % (
                prop, sens["mutants"], sens["applicable"], sens["detected"],
                (", MISSED %s" % sens["missed"]) if sens["missed"] else "",
                (", skipped %d (pattern not in this tree)" % len(sens["skipped"])) if sens["skipped"] else ""))
        except Exception as e:      # the self-test must never break the check itself
            sens = {"error": str(e)[:200]}
            print("selftest %s: not run (%s)" % (prop, sens["error"]))
    if not replay:
        write_evidence(prop, tier, seed, mod, rep, configs, metas, time.time() - t0, len(new), sorted(listed), sens)
    n_ob = len(rep.obligations)
    n_ok = sum(1 for o in rep.obligations if o.get("discharged_by"))
    print("%s tier=%s configs=%s obligations=%d discharged=%d violations=%d known=%d wall=%.1fs" % (
        prop, tier, ",".join(configs), n_ob, n_ok, len(new), len(listed), time.time() - t0))
    return exit_code


def _slug(k):
    import hashlib
    return hashlib.sha256(k.encode()).hexdigest()[:12]


def write_evidence(prop, tier, seed, mod, rep, configs, metas, wall, nviol, listed, sens=None):
    obs = rep.obligations
    distinct = set()
    for o in obs:
        if o.get("nontrivial") and o.get("discharged_by"):
            distinct.add((o["rule"], o["function"], str(o["obligation"])))
    samples = []
    seen_rules = set()
    for o in obs:
        if o["rule"] not in seen_rules and o.get("discharged_by"):
            seen_rules.add(o["rule"])
            samples.append({k: (v if isinstance(v, (int, float, bool, type(None))) else str(v)[:400])
                            for k, v in o.items()})
        if len(samples) >= 12:
            break
    ev = {
        "property_id": prop,
        "tier": tier,
        "seed": seed,
        "level": "other",
        "coverage": {
            "explanation": mod.EXPLANATION,
            "obligations": len(obs),
            "discharged": sum(1 for o in obs if o.get("discharged_by")),
            "evaluations": max(1, len(obs)),
            "distinct_nontrivial": len(distinct),
            "rule": "one evaluation = one rule instance (obligation) decided on the MIR of one feature "
                    "configuration; distinct = distinct (rule, function, obligation) triples whose discharge "
                    "needed a schema premise, a normal-form comparison or a dataflow fact (not a bare existence check)",
            "samples": samples or [{"note": "no obligation discharged"}],
            "checker_cmd": "./check %s --tier %s" % (prop, tier),
            "trusted_base": getattr(mod, "ASSUMPTIONS", []),
            "configs": configs,
            "tree_hash": sorted({m.get("tree_hash") for m in metas}),
            "functions_analysed": sorted(rep.functions),
            "rules": dict(sorted(rep.rules_run.items())),
            "known_findings_matched": listed,
            "exhaustive": False,
            "sensitivity_selftest": sens if sens is not None else "not run in this tier",
        },
        "assumptions": getattr(mod, "ASSUMPTIONS", []),
        "wall_s": round(wall, 2),
        "violations": nviol,
    }
    os.makedirs(os.path.join(VERIF, "evidence"), exist_ok=True)
    tmp = os.path.join(VERIF, "evidence", "%s.json.tmp" % prop)
    with open(tmp, "w") as fh:
        json.dump(ev, fh, indent=1, default=str)
    os.replace(tmp, os.path.join(VERIF, "evidence", "%s.json" % prop))


if __name__ == "__main__":
    sys.exit(main())

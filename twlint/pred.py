"""Normalisation of branch literals and boolean terms into signed atoms.

A *fact* is (atom, polarity) with atom one of
  ('variant', x, name)          x is enum variant `name`
  ('cmp', op, a, b)             op in Lt Le Eq (Gt/Ge/Ne are rewritten)
  ('b', term)                   opaque boolean term (e.g. a call)
  ('inteq', term, valuestr)     integer switch value
"""


def _variant_name(variants, val):
    for n, v in variants:
        if v == val:
            return n
    return None


_STRIP = {"str::strip_prefix": "str::starts_with", "str::strip_suffix": "str::ends_with"}


def _variant_fact(x, name, pol):
    """`x.strip_prefix(p)` is Some exactly when `x.starts_with(p)` (same for suffix)."""
    if x[0] == "call" and x[1] in _STRIP and len(x[2]) == 2 and name in ("Some", "None"):
        return (("b", ("call", _STRIP[x[1]], x[2])), pol == (name == "Some"))
    return (("variant", x, name), pol)


def lit_to_facts(lit):
    """Convert a Sym edge literal into a list of facts (conjunction)."""
    kind, term, val = lit[0], lit[1], lit[2]
    ty = lit[3] if len(lit) > 3 else ""
    if term[0] == "discr":
        variants = term[2]
        x = term[1]
        if kind == "isin":
            names = [_variant_name(variants, v) for v in val]
            if variants and all(n is not None for n in names):
                rest = [n for n, _ in variants if n not in names]
                if len(names) == 1:
                    return [_variant_fact(x, names[0], True)]
                return [_variant_fact(x, n, False) for n in rest]
            return []
        if kind == "is":
            n = _variant_name(variants, val)
            if n is not None:
                return [_variant_fact(x, n, True)]
            return [(("inteq", term, val), True)]
        # isnot a set of values
        names = [_variant_name(variants, v) for v in val]
        rest = [n for n, _ in variants if n not in names]
        if variants and not rest:
            return [(("false",), True)]   # `otherwise` edge of an exhaustive match: unreachable
        if len(rest) == 1:
            return [_variant_fact(x, rest[0], True)]
        return [_variant_fact(x, n, False) for n in names if n is not None]
    # boolean switch: 0 = false
    numeric = ty == "char" or ty in ("u8", "u16", "u32", "u64", "usize", "i8", "i16", "i32", "i64", "isize", "u128", "i128")
    if not numeric:
        if kind == "is" and val == "0":
            return bool_facts(term, False)
        if kind == "isnot" and val == ("0",):
            return bool_facts(term, True)
        if kind == "is" and val == "1" and _is_boolish(term):
            return bool_facts(term, True)
    def const(v):
        try:
            n = int(v)
        except ValueError:
            return None
        if ty == "char":
            return ("char", n)
        if ty in ("u8", "u16", "u32", "u64", "usize", "i8", "i16", "i32", "i64", "isize", "u128", "i128"):
            return ("int", n)
        return None
    if kind == "isin":
        cs = [const(v) for v in val]
        if all(c is not None for c in cs):
            return [(("in", term, tuple(sorted(cs))), True)]
        return []
    if kind == "is":
        c = const(val)
        if c is not None:
            return [cmp_fact("Eq", term, c)]
        return [(("inteq", term, val), True)]
    out = []
    for v in val:
        c = const(v)
        if c is not None:
            a, p = cmp_fact("Eq", term, c)
            out.append((a, False))
        else:
            out.append((("inteq", term, v), False))
    return out


def _is_boolish(t):
    return t[0] in ("bin", "un") or (t[0] in ("call", "callm"))


_IS_EMPTY = {"str::is_empty": "str::len", "String::is_empty": "String::len", "Vec::is_empty": "Vec::len",
             "[]::is_empty": "[]::len"}

_NEG = {"Lt": "Ge", "Le": "Gt", "Gt": "Le", "Ge": "Lt", "Eq": "Ne", "Ne": "Eq"}


def bool_facts(t, pol):
    """Facts implied by boolean term t having truth value pol (conjunction).
    Only sound decompositions are made: Not flips, And under True, Or under False."""
    if t[0] == "bool":
        return [] if t[1] == pol else [(("false",), True)]
    if t[0] == "un" and t[1] == "Not":
        return bool_facts(t[2], not pol)
    if t[0] == "bin" and t[1] in ("Lt", "Le", "Gt", "Ge", "Eq", "Ne"):
        op, a, b = t[1], t[2], t[3]
        if not pol:
            op = _NEG[op]
        if op in ("Lt", "Le") and b[0] == "call" and b[1] in ("Ord::min", "std::cmp::min", "usize::min") and len(b[2]) == 2:
            return [cmp_fact(op, a, b[2][0]), cmp_fact(op, a, b[2][1])]      # x < min(p, q) is x < p && x < q
        if op in ("Gt", "Ge") and a[0] == "call" and a[1] in ("Ord::min", "std::cmp::min", "usize::min") and len(a[2]) == 2:
            return [cmp_fact(op, a[2][0], b), cmp_fact(op, a[2][1], b)]
        if op in ("Eq", "Ne") and a[0] == "discr" and b[0] == "discr":
            # derived PartialEq of a field-less enum compares discriminants: x == Variant is `x is Variant`
            for x, c in ((a, b), (b, a)):
                if c[1][0] == "adt" and not c[1][3]:
                    return [_variant_fact(x[1], c[1][2], op == "Eq")]
        return [cmp_fact(op, a, b)]
    if t[0] == "call" and t[1] in _IS_EMPTY and len(t[2]) == 1:
        # canonical emptiness fact: len(x) == 0
        return [cmp_fact("Eq" if pol else "Ne", ("call", _IS_EMPTY[t[1]], t[2]), ("int", 0))]
    if t[0] == "bin" and t[1] == "BitAnd" and pol:
        return bool_facts(t[2], True) + bool_facts(t[3], True)
    if t[0] == "bin" and t[1] == "BitOr" and not pol:
        return bool_facts(t[2], False) + bool_facts(t[3], False)
    return [(("b", t), pol)]


def cmp_fact(op, a, b):
    """Canonical comparison fact: only Lt, Le, Eq atoms with polarity."""
    if op == "Gt":
        return (("cmp", "Lt", b, a), True)
    if op == "Ge":
        return (("cmp", "Le", b, a), True)
    if op == "Lt":
        return (("cmp", "Lt", a, b), True)
    if op == "Le":
        return (("cmp", "Le", a, b), True)
    if op == "Eq":
        x, y = sorted([a, b], key=repr)
        return (("cmp", "Eq", x, y), True)
    if op == "Ne":
        x, y = sorted([a, b], key=repr)
        return (("cmp", "Eq", x, y), False)
    raise ValueError(op)


def facts_at(prog, body, block, _depth=0):
    """Simplified conjunction of facts known on entry to `block` (edge dominance),
    closed under the implication of boolean temporaries: when a branch tests a
    bool that merges `false` (resp. `true`) with a single other value E computed
    on predecessor p, taking the true (resp. false) edge implies E (resp. not E)
    and everything known at p."""
    from .sym import sym_of
    s = sym_of(body)
    out = []
    for lit in s.guards(block):
        lit2 = (lit[0], prog.simp(lit[1], body), lit[2]) + tuple(lit[3:])
        out.extend(lit_to_facts(lit2))
    if _depth < 3:
        extra = []
        for atom, pol in out:
            if atom[0] == "b" and atom[1][0] == "phi":
                ins = s.phi_inputs(atom[1])
                live = [(p, prog.simp(v, body)) for p, v in ins.items()]
                live = [(p, v) for p, v in live if v != ("bool", not pol)]
                if len(live) == 1:
                    p, v = live[0]
                    extra.extend(bool_facts(v, pol))
                    extra.extend(facts_at(prog, body, p, _depth + 1))
        out.extend(extra)
    return out


def path_facts(prog, body, path):
    from .sym import sym_of
    s = sym_of(body)
    out = []
    for lit in s.path_literals(path):
        lit2 = (lit[0], prog.simp(lit[1], body), lit[2]) + tuple(lit[3:])
        out.extend(lit_to_facts(lit2))
    return out

"""Sensitivity self-test of one property's check (thorough tier, DESIGN.md section 7).

Each mutant of mutants/corpus.py that names the property is applied to a scratch copy of
the tree under analysis (outside /repo and /verif, removed afterwards together with its
build output); the property's rules are evaluated on the copy by a worker process and must
report at least one violation key that the unmodified tree does not report.  Purely static:
the worker runs the exporter and the analyser, never textwrap itself.

The result is evidence about the checker (are its rules non-vacuous on this tree?), not
about the property: it never changes the exit code of the check.
"""
import json
import os
import shutil
import subprocess
import sys
import tempfile
from concurrent.futures import ThreadPoolExecutor

VERIF = os.path.dirname(os.path.dirname(os.path.abspath(__file__)))

# properties without own entries borrow the mutants of the properties whose rules they evaluate
BORROW = {}

WORKER = (
    "import sys, json; sys.path.insert(0, %(verif)r); sys.setrecursionlimit(20000)\n"
    "from twlint import facts as F; F.REPO = %(repo)r\n"
    "from twlint.runner import run_property\n"
    "try:\n"
    "    mod, rep, cfgs, metas, wall = run_property(%(prop)r, 'quick', %(repo)r)\n"
    "    print(json.dumps({'keys': sorted({v.key for v in rep.violations})}))\n"
    "except F.BrokenCheck as e:\n"
    "    print(json.dumps({'broken': str(e)[-300:]}))\n"
)


def pool_for(prop):
    sys.path.insert(0, VERIF)
    from mutants.corpus import M
    names = [prop] + BORROW.get(prop, [])
    return [m for m in M if set(m["props"]) & set(names)]


def _copy_tree(repo, dst):
    def ignore(d, names):
        return [n for n in names if n in ("target", ".git") or n.endswith(".orig")]
    shutil.copytree(repo, dst, ignore=ignore)


def _run_worker(prop, scratch, tbase):
    env = dict(os.environ, TWLINT_NOCACHE="1", TWLINT_TARGET_BASE=tbase, CARGO_NET_OFFLINE="true")
    r = subprocess.run([sys.executable, "-c", WORKER % {"verif": VERIF, "repo": scratch, "prop": prop}],
                       cwd=VERIF, env=env, capture_output=True, text=True)
    try:
        return json.loads(r.stdout.strip().splitlines()[-1])
    except Exception:
        return {"broken": (r.stderr or r.stdout)[-300:]}


def run(prop, repo, base_keys, jobs=None):
    pool = pool_for(prop)
    res = {"mutants": len(pool), "applicable": 0, "detected": 0, "missed": [], "skipped": [], "not_compiling": []}
    if not pool:
        return res
    jobs = jobs or min(8, max(1, (os.cpu_count() or 2) // 2), len(pool))
    root = tempfile.mkdtemp(prefix="twlint-selftest-%s-" % prop)
    try:
        lanes = []
        for j in range(jobs):
            d = os.path.join(root, "lane%d" % j)
            os.makedirs(d)
            _copy_tree(repo, os.path.join(d, "repo"))
            lanes.append(d)
        chunks = [pool[j::jobs] for j in range(jobs)]

        def work(j):
            out = []
            scratch = os.path.join(lanes[j], "repo")
            tbase = os.path.join(lanes[j], "build")
            os.makedirs(tbase, exist_ok=True)
            for mu in chunks[j]:
                p = os.path.join(scratch, mu["file"])
                try:
                    orig = open(p).read()
                except OSError:
                    out.append((mu["id"], "skipped"))
                    continue
                if orig.count(mu["old"]) != 1:
                    out.append((mu["id"], "skipped"))
                    continue
                with open(p, "w") as fh:
                    fh.write(orig.replace(mu["old"], mu["new"]))
                try:
                    r = _run_worker(prop, scratch, tbase)
                finally:
                    with open(p, "w") as fh:
                        fh.write(orig)
                if "broken" in r:
                    out.append((mu["id"], "not_compiling"))
                elif set(r["keys"]) - set(base_keys):
                    out.append((mu["id"], "detected"))
                else:
                    out.append((mu["id"], "missed"))
            return out
        with ThreadPoolExecutor(max_workers=jobs) as ex:
            for lst in ex.map(work, range(jobs)):
                for mid, verdict in lst:
                    if verdict == "skipped":
                        res["skipped"].append(mid)
                    elif verdict == "not_compiling":
                        res["not_compiling"].append(mid)
                    else:
                        res["applicable"] += 1
                        if verdict == "detected":
                            res["detected"] += 1
                        else:
                            res["missed"].append(mid)
    finally:
        shutil.rmtree(root, ignore_errors=True)
    for k in ("missed", "skipped", "not_compiling"):
        res[k].sort()
    return res

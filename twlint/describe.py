"""Stable (line- and block-number free) rendering of symbolic terms, used in
violation keys and table lookups."""
from .sym import show_proj


def pk_name(body, pk):
    if pk and pk[0] == "opaque":
        return "tmp"
    l, proj = pk
    # exact debug name for the place
    for d in body.raw.get("debug", []):
        pl = d.get("place")
        if pl is None:
            continue
        if pl["l"] == l:
            from .sym import pk_of
            dpk = pk_of(pl)
            if len(dpk[1]) <= len(proj) and all(_eq(a, b) for a, b in zip(dpk[1], proj)):
                rest = proj[len(dpk[1]):]
                return d["name"] + show_proj(tuple(e for e in rest if e != "deref"))
    if l <= body.arg_count and l != 0:
        return "arg%d" % l + show_proj(tuple(e for e in proj if e != "deref"))
    return "tmp" + show_proj(tuple(e for e in proj if e != "deref"))


def _eq(a, b):
    if a == b:
        return True
    return isinstance(a, tuple) and isinstance(b, tuple) and a[0] == b[0] and a[0] in ("f", "dc") and a[1] == b[1]


def describe(t, body, depth=0):
    if not isinstance(t, tuple) or not t:
        return repr(t)
    if depth > 14:
        return "..."
    d = depth + 1
    tag = t[0]
    D = lambda x: describe(x, body, d)
    if tag == "int":
        return str(t[1])
    if tag == "float":
        return t[1]
    if tag == "bool":
        return "true" if t[1] else "false"
    if tag == "char":
        return "U+%04X" % t[1]
    if tag == "str":
        return '"%s"' % t[1].encode("unicode_escape").decode()
    if tag == "unit":
        return "()"
    if tag == "param":
        return t[2]
    if tag == "upvar":
        return t[1]
    if tag == "call":
        return "%s(%s)" % (t[1], ", ".join(D(a) for a in t[2]))
    if tag == "callm":
        return "%s!(%s)" % (t[1], ", ".join(D(a) for a in t[2]))
    if tag == "mutref":
        return "&mut " + pk_name(body, t[1])
    if tag == "mut":
        return "%s'" % pk_name(body, t[3])
    if tag == "bin":
        return "(%s %s %s)" % (D(t[2]), t[1], D(t[3]))
    if tag == "un":
        return "%s(%s)" % (t[1], D(t[2]))
    if tag == "cast":
        return "(%s as %s)" % (D(t[2]), t[3])
    if tag == "field":
        return "%s.%s" % (D(t[1]), t[2])
    if tag == "as":
        return "%s?%s" % (D(t[1]), t[2])
    if tag == "index":
        return "%s[%s]" % (D(t[1]), D(t[2]))
    if tag == "discr":
        return "discr(%s)" % D(t[1])
    if tag in ("tuple", "array"):
        return "(%s)" % ", ".join(D(x) for x in t[1])
    if tag == "adt":
        return "%s::%s{%s}" % (t[1].split("::")[-1], t[2], ", ".join("%s: %s" % (n, D(v)) for n, v in t[3]))
    if tag == "closure":
        return "closure{%s}" % ", ".join("%s: %s" % (n, D(v)) for n, v in t[2])
    if tag == "phi":
        return "phi<%s>" % pk_name(body, t[2])
    if tag == "update":
        return "%s{%s=%s}" % (D(t[1]), show_proj(t[2]), D(t[3]))
    if tag == "ovf":
        return "(%s %s %s)" % (D(t[2]), t[1], D(t[3]))
    if tag == "ovfflag":
        return "ovf(%s %s %s)" % (D(t[2]), t[1], D(t[3]))
    if tag == "fnref":
        return "fn:" + str(t[1])
    if tag == "cref":
        return "const:" + "#".join(str(x) for x in t[1:])
    if tag == "unknown":
        return "?" + str(t[1])
    if tag == "var":
        return t[1]
    if tag == "repeat":
        return "[%s; %s]" % (D(t[1]), t[2])
    return "%s(%s)" % (tag, ", ".join(D(x) if isinstance(x, tuple) else repr(x) for x in t[1:]))

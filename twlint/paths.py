"""Path-sensitive views: values resolved along one acyclic path, mutation
events of an accumulator along a path, loop transition systems."""
from .sym import sym_of, subterms, pk_of, overlaps
from .pred import lit_to_facts


class PathView:
    """Resolve phi nodes along a concrete block path."""

    def __init__(self, prog, body, path, keep_headers=False):
        self.prog = prog
        self.body = body
        self.keep_headers = keep_headers
        self.path = list(path)
        self.pos = {}
        for i, b in enumerate(self.path):
            self.pos.setdefault(b, i)
        self.s = sym_of(body)
        self._memo = {}
        self._nfs = None

    def resolve(self, t, depth=0):
        """Replace every phi whose block lies on the path (with a predecessor on
        the path) by the value flowing in along the path."""
        if not isinstance(t, tuple) or not t or depth > 80:
            return t
        if t in self._memo:
            return self._memo[t]
        r = t
        g = self.prog._phi_unwrap_or(t, self.body) if t[0] == "phi" and hasattr(self.prog, "_phi_unwrap_or") else None
        if g is not None and not _const_default(g):
            g = None      # both arms carry information: keep the value that flows in along this path
        if g is not None:
            # a match that is an unwrap_or: the normal form is path independent
            r = self.resolve(g, depth + 1)
        elif t[0] == "phi":
            b = t[1]
            i = self.pos.get(b)
            if self.keep_headers and self.body.cfg.loop_of_header(b) is not None:
                i = None
            if i is not None and i > 0:
                pred = self.path[i - 1]
                ins = self.s.phi_inputs(t)
                if pred in ins:
                    # the incoming value is itself resolved against the prefix of the path
                    sub = PathView(self.prog, self.body, self.path[:i], self.keep_headers)
                    r = sub.resolve(ins[pred], depth + 1)
        elif t[0] in ("int", "float", "bool", "char", "str", "unit", "param", "upvar", "mutref", "unknown",
                      "fnref", "cref", "zst", "bytes"):
            r = t
        elif t[0] == "mut":
            r = t
        else:
            r = tuple(self.resolve(x, depth + 1) if isinstance(x, tuple) else x for x in t)
        self._memo[t] = r
        return r

    def value_at_end(self, pk):
        """Value of place pk after the last block of the path, along the path."""
        v = self.s.val(pk, self.path[-1], "after")
        return self.reduce(self.prog.simp(self.resolve(v), self.body))

    def value_before_term(self, pk, block):
        i = self.pos[block]
        sub = PathView(self.prog, self.body, self.path[:i + 1], self.keep_headers)
        v = self.s.val(pk, block, "term")
        return self.reduce(self.prog.simp(sub.resolve(v), self.body))

    def reduce(self, t, depth=0):
        """Rewrite max / min / saturating_sub whose outcome is decided by the conditions of this path."""
        if not isinstance(t, tuple) or not t or depth > 60:
            return t
        if not any(st[0] == "call" and st[1] in ("Ord::max", "Ord::min", "usize::saturating_sub") for st in subterms(t)):
            return t
        if self._nfs is None:
            from .poly import fact_nf
            self._nfs = {fact_nf(f) for f in self.facts() if f[0][0] == "cmp"}
        from .poly import poly, GE0, GT0
        if t[0] == "call" and t[1] in ("Ord::max", "Ord::min", "usize::saturating_sub") and len(t[2]) == 2:
            a, b = self.reduce(t[2][0], depth + 1), self.reduce(t[2][1], depth + 1)
            d = poly(a) - poly(b)
            ge = GE0(d) in self._nfs or GT0(d) in self._nfs          # a >= b on this path
            le = GE0(-d) in self._nfs or GT0(-d) in self._nfs         # a <= b on this path
            if t[1] == "Ord::max" and (ge or le):
                return a if ge else b
            if t[1] == "Ord::min" and (ge or le):
                return b if ge else a
            if t[1] == "usize::saturating_sub" and le:
                return ("int", 0)
            return (t[0], t[1], (a, b))
        return tuple(self.reduce(x, depth + 1) if isinstance(x, tuple) else x for x in t)

    def facts(self, edge_filter=None):
        out = []
        for a, b in zip(self.path, self.path[1:]):
            if edge_filter is not None and not edge_filter(a, b):
                continue
            for lit in self.s.edge_literals(a, b):
                i = self.pos[a]
                sub = PathView(self.prog, self.body, self.path[:i + 1], self.keep_headers)
                lit2 = (lit[0], self.prog.simp(sub.resolve(lit[1]), self.body), lit[2]) + tuple(lit[3:])
                out.extend(lit_to_facts(lit2))
        return out

    def call_args(self, block):
        i = self.pos[block]
        sub = PathView(self.prog, self.body, self.path[:i + 1], self.keep_headers)
        return tuple(self.prog.simp(sub.resolve(a), self.body) for a in self.s.call_args(block))

    def events(self, roots):
        """Calls on the path that take one of the root places by `&mut` (or are
        destination-assigned into them): [(block, callee name, args, root)]."""
        out = []
        mc = self.s.mut_calls()
        for b in self.path:
            t = self.body.blocks[b]["term"]
            if t["k"] != "call":
                continue
            hit = None
            for r in mc.get(b, ()):
                for root in roots:
                    if r[0] != "opaque" and overlaps(r, root):
                        hit = root
            if hit is None:
                continue
            cal = self.body.callee(b)
            out.append((b, cal.name, self.call_args(b), hit))
        return out


def _const_default(g):
    """g is o.unwrap_or(<literal>) (or the saturating_sub it normalises to)."""
    if g[0] != "call":
        return False
    if g[1] in ("usize::saturating_sub", "Ord::max", "Ord::min", "f64::max", "f64::min"):
        return True
    if g[1] == "Option::unwrap_or" and len(g[2]) == 2:
        o, d = g[2]
        if d[0] in ("int", "float", "char", "bool", "str") or (d[0] == "adt" and not d[3]):
            return True
        # a match on a pure lookup (get, last, find, checked_sub, strip_suffix ..) is a value-level conditional;
        # a match on a state-advancing call (next()) is the control flow of an iteration and stays path-wise
        return not any(st[0] in ("callm", "mut", "mutref") for st in subterms(o))
    return False


def loop_paths(body, lm, limit=5000):
    """Acyclic paths through one iteration of a loop: from the header to each
    back-edge source (kind 'back') or to an exit edge's target (kind 'exit')."""
    cfg = body.cfg
    h = lm.header
    res = []
    back_srcs = {t for t, _ in lm.lp["back_edges"]}
    stack = [(h, [h])]
    while stack:
        x, path = stack.pop()
        for s in cfg.succ[x]:
            if s == h:
                res.append(("back", path + [h]))
                continue
            if s not in lm.blocks:
                # a `break` arm: blocks that belong to this exit only (they do not
                # post-dominate the header) are part of the iteration; the first block
                # after them is the end point of the path
                tail = []
                cur = s
                while (not cfg.postdominates(cur, h)) and len(cfg.succ[cur]) == 1 \
                        and len([p for p in cfg.pred[cur] if p in cfg.reach]) == 1 \
                        and cur not in path and cur not in tail:
                    tail.append(cur)
                    cur = cfg.succ[cur][0]
                res.append(("exit", path + tail + [cur]))
                continue
            if s in path:
                continue  # inner loop back edge: cut
            stack.append((s, path + [s]))
        if len(res) > limit:
            raise RuntimeError("loop path explosion in %s" % body.key)
    return res


def fn_paths(body, start=0, limit=20000):
    """Acyclic paths from `start` to each return block (loops traversed at most once)."""
    cfg = body.cfg
    res = []
    stack = [(start, [start])]
    while stack:
        x, path = stack.pop()
        if x in cfg.returns:
            res.append(path)
            continue
        for s in cfg.succ[x]:
            if s in path:
                continue
            stack.append((s, path + [s]))
        if len(res) > limit:
            raise RuntimeError("function path explosion in %s" % body.key)
    return res


def named_pk(body, name):
    """Place key of the user variable / capture called `name` (first match)."""
    for d in body.raw.get("debug", []):
        n = d["name"]
        nn = n[len("_ref__"):] if n.startswith("_ref__") else n
        if nn == name and "place" in d:
            from .sym import pk_of as _pk
            return _pk(d["place"])
    return None


class Transition:
    def __init__(self, kind, path, facts, events, nxt, view):
        self.kind = kind        # 'back' | 'exit'
        self.path = path
        self.facts = facts      # pred facts along the path
        self.events = events    # accumulator events along the path
        self.next = nxt         # {pk: value at the end of the path}
        self.view = view


def loop_system(prog, body, lm, state_pks, roots):
    """One Transition per acyclic path through an iteration of the loop."""
    out = []
    for kind, path in loop_paths(body, lm):
        pv = PathView(prog, body, path)
        facts = pv.facts()
        if contradictory(facts):
            continue
        inner = PathView(prog, body, path[:-1]) if len(path) > 1 else pv
        events = inner.events(roots)
        nxt = {}
        for pk in state_pks:
            nxt[pk] = inner.value_at_end(pk)
        out.append(Transition(kind, path, facts, events, nxt, inner))
    return _rotate_flag_loop(prog, body, lm, out)


def _rotate_flag_loop(prog, body, lm, trans):
    """`let mut done = false; while !done { ..; done = E; }` is `loop { ..; if E { break } }`: when the loop is
    controlled by a boolean that is constant on entry and re-computed by every pass, move the test to the end of the
    pass - each pass splits into a continuing and a leaving transition under E - so that rules see the condition E
    instead of an opaque flag."""
    from .pred import bool_facts
    s = sym_of(body)
    flags = loop_state_vars(body, lm, types=("bool",))
    for pk in flags:
        phi = s.val_entry(pk, lm.header)
        init = entry_value(prog, body, lm, pk)
        if init is None or init[0] != "bool":
            continue
        backs = [t for t in trans if t.kind == "back"]
        exits = [t for t in trans if t.kind == "exit"]
        if not backs:
            continue
        stay = {pol for t in backs for a, pol in t.facts if a == ("b", phi)}
        if len(stay) != 1:
            continue
        stay = next(iter(stay))
        if init[1] != stay:
            continue          # the loop may be skipped altogether: not this shape
        if not all(any(a == ("b", phi) and pol == stay for a, pol in t.facts) for t in backs):
            continue
        flag_exits = [t for t in exits if any(a == ("b", phi) and pol != stay for a, pol in t.facts)
                      and not t.events and all(a == ("b", phi) for a, _p in t.facts)]
        if len(flag_exits) != len(exits) or not flag_exits:
            continue          # other ways out: leave the system as it is
        new = []
        for t in backs:
            e = prog.simp(s.val(pk, t.path[-2], "after"), body) if len(t.path) >= 2 else None
            e = prog.simp(t.view.resolve(s.val(pk, t.path[-2], "after")), body) if e is not None else None
            if e is None:
                return trans
            base = [f for f in t.facts if f[0] != ("b", phi)]
            cont = base + bool_facts(e, stay)
            leave = base + bool_facts(e, not stay)
            if not contradictory(cont):
                new.append(Transition("back", t.path, cont, t.events, t.next, t.view))
            if not contradictory(leave):
                new.append(Transition("exit", t.path, leave, t.events, t.next, t.view))
        return new
    return trans


def loop_state_vars(body, lm, types=("usize", "f64", "bool")):
    """User variables (debug-named whole locals or captures) assigned inside the loop."""
    s = sym_of(body)
    found = {}
    for b in sorted(lm.blocks):
        for i, st in enumerate(body.blocks[b]["stmts"]):
            if st["k"] != "assign":
                continue
            nm = body.place_name(st["place"])
            if nm is None and st["place"]["p"] and st["place"]["l"] in body.local_names \
                    and all(isinstance(e, dict) and "f" in e for e in st["place"]["p"]):
                nm = body.local_names[st["place"]["l"]] + "." + ".".join(e.get("name", str(e["f"])) for e in st["place"]["p"])
            if nm is None:
                continue
            ty = st["place"]["ty"]
            if ty in types:
                pk = s.lhs_pk(b, i)
                # loop-carried only: the value at the header merges several definitions
                hv = s.val_entry(pk, lm.header)
                declared_inside = any(st2["k"] == "live" and st2["l"] == pk[0]
                                      for b2 in lm.blocks for st2 in body.blocks[b2]["stmts"])
                if body.locals[pk[0]].get("inlined"):
                    continue   # parameter / local of an inlined helper: per-call, not loop-carried
                if hv[0] == "phi" and hv[1] == lm.header and not declared_inside:
                    found[pk] = (nm, ty)
    return found


def entry_value(prog, body, lm, pk):
    """Value of pk when the loop is entered (from outside)."""
    s = sym_of(body)
    vals = set()
    for p in lm.lp["entries"]:
        vals.add(prog.simp(s.val(pk, p, "after"), body))
    if len(vals) == 1:
        return next(iter(vals))
    return None


def contradictory(facts):
    """Syntactically infeasible path condition: x < x, x != x, or an atom with both polarities."""
    seen = {}
    from .poly import fact_nf, negate_cmp
    nfs = set()
    for f in facts:
        if f[0][0] == "cmp":
            nfs.add(fact_nf(f))
    from .poly import canon
    for nf in nfs:
        if negate_cmp(nf) in nfs:
            return True
        if nf[0] == "ge0" and ("ge0", -nf[1]) in nfs:
            # p >= 0 and -p >= 0 mean p == 0
            if canon("ne0", nf[1]) in nfs or canon("ne0", -nf[1]) in nfs:
                return True
        k, p = nf
        if p.is_const():
            c = p.const_value()
            if (k == "ge0" and c < 0) or (k == "gt0" and c <= 0) or (k == "eq0" and c != 0) or (k == "ne0" and c == 0):
                return True
    for atom, pol in facts:
        if atom[0] == "false":
            return True
        if atom[0] == "cmp":
            op, a, b = atom[1], atom[2], atom[3]
            if a == b:
                if op == "Lt" and pol:
                    return True
                if op in ("Le", "Eq") and not pol:
                    return True
            elif a[0] in ("int", "char", "bool") and b[0] == a[0]:
                truth = {"Lt": a[1] < b[1], "Le": a[1] <= b[1], "Eq": a[1] == b[1]}[op]
                if truth != pol:
                    return True
        if atom in seen and seen[atom] != pol:
            return True
        seen[atom] = pol
        if atom[0] == "variant":
            for (a2, p2) in list(seen.items()):
                if a2[0] == "variant" and a2[1] == atom[1] and a2[2] != atom[2] and p2 and pol:
                    return True
    return False

"""Recognised predicate idiom families (DESIGN.md 4.6).  Each recogniser maps
a pred.py fact to a polarity for the abstract predicate, or None."""


def empty_fact(fact, x):
    """EMPTY(x): str::is_empty(x), len(x) == 0."""
    atom, pol = fact
    if atom[0] == "b" and atom[1][0] == "call" and atom[1][1] in ("str::is_empty", "String::is_empty") and atom[1][2][0] == x:
        return pol
    if atom[0] == "cmp" and atom[1] == "Eq":
        for a, b in ((atom[2], atom[3]), (atom[3], atom[2])):
            if a == ("int", 0) and b[0] == "call" and b[1] in ("str::len", "String::len") and b[2][0] == x:
                return pol
    return None


def vec_empty_fact(fact, v):
    """ACC-EMPTY(v): Vec::is_empty(v), len(v) == 0."""
    atom, pol = fact
    if atom[0] == "b" and atom[1][0] == "call" and atom[1][1] in ("Vec::is_empty", "[]::is_empty") and atom[1][2][0] == v:
        return pol
    if atom[0] == "cmp" and atom[1] == "Eq":
        for a, b in ((atom[2], atom[3]), (atom[3], atom[2])):
            if a == ("int", 0) and b[0] == "call" and b[1] in ("Vec::len", "[]::len") and b[2][0] == v:
                return pol
    return None


def blank_fact(prog, body, fact, x):
    """BLANK(x): x consists of whitespace only.
    trim*().is_empty(); chars().all(char::is_whitespace); !chars().any(|c| !c.is_whitespace())."""
    atom, pol = fact
    if atom[0] != "b":
        return None
    t = atom[1]
    if t[0] == "call" and t[1] == "str::is_empty":
        y = t[2][0]
        if y[0] == "call" and y[1] in ("str::trim", "str::trim_start", "str::trim_end") and y[2][0] == x:
            return pol
    if t[0] == "callm" and t[1] in ("Iterator::all", "Iterator::any") and len(t[2]) == 2:
        it, f = t[2]
        src = _iter_src(prog, body, it, t[3][1])
        if src is None or not (src[0] == "call" and src[1] == "str::chars" and src[2][0] == x):
            return None
        ws = _is_ws_pred(prog, f)
        if ws is None:
            return None
        if t[1] == "Iterator::all" and ws is True:
            return pol
        if t[1] == "Iterator::any" and ws is False:
            return not pol
    return None


def _iter_src(prog, body, it, block):
    from .engines.schemas import resolve_iter
    return resolve_iter(prog, body, it, block)


def _is_ws_pred(prog, f):
    """True if f is `char::is_whitespace` (or a closure returning it), False if it
    is its negation, None otherwise."""
    if f[0] == "fnref" and f[1] == "char::is_whitespace":
        return True
    if f[0] == "closure":
        from .engines.schemas import closure_return_term
        cb, ret = closure_return_term(prog, f)
        if cb is None:
            return None
        neg = False
        while ret[0] == "un" and ret[1] == "Not":
            neg = not neg
            ret = ret[2]
        if ret[0] == "call" and ret[1] == "char::is_whitespace" and ret[2][0][0] == "param":
            return not neg
    return None

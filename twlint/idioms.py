"""Recognised predicate idiom families (DESIGN.md 4.6).  Each recogniser maps
a pred.py fact to a polarity for the abstract predicate, or None."""


def _emptiness(fact, x, is_empty_names, len_names):
    """Polarity of "x is empty" established by the fact: is_empty(x), or any comparison
    whose normal form is len(x) <= 0 (== 0, < 1) / len(x) >= 1 (> 0, != 0)."""
    from .poly import fact_nf, poly, GE0, Poly
    atom, pol = fact
    if atom[0] == "b" and atom[1][0] == "call" and atom[1][1] in is_empty_names and atom[1][2][0] == x:
        return pol
    if atom[0] == "b" and atom[1][0] == "call" and atom[1][1] in ("PartialEq::eq", "PartialEq::ne") and len(atom[1][2]) == 2 \
            and "str::is_empty" in is_empty_names:
        a, b = atom[1][2]
        if (a == x and b == ("str", "")) or (b == x and a == ("str", "")):     # x == ""
            return pol if atom[1][1] == "PartialEq::eq" else not pol
    if atom[0] == "cmp":
        nf = fact_nf(fact)
        for ln in len_names:
            L = poly(("call", ln, (x,)))
            if nf == GE0(-L):
                return True
            if nf == GE0(L - Poly.const(1)):
                return False
    return None


def empty_fact(fact, x):
    """EMPTY(x): str::is_empty(x), len(x) == 0 / < 1 / <= 0 (and their negations)."""
    return _emptiness(fact, x, ("str::is_empty", "String::is_empty"), ("str::len", "String::len"))


def vec_empty_fact(fact, v):
    """ACC-EMPTY(v): Vec::is_empty(v), len(v) == 0 / < 1 (and their negations)."""
    return _emptiness(fact, v, ("Vec::is_empty", "[]::is_empty"), ("Vec::len", "[]::len"))


def blank_fact(prog, body, fact, x):
    """BLANK(x): x consists of whitespace only.
    trim*().is_empty(); chars().all(char::is_whitespace); !chars().any(|c| !c.is_whitespace())."""
    atom, pol = fact
    for tr in ("str::trim", "str::trim_start", "str::trim_end"):
        e = empty_fact(fact, ("call", tr, (x,)))
        if e is not None:
            return e
    if atom[0] != "b":
        return None
    t = atom[1]
    if t[0] == "callm" and t[1] in ("Iterator::all", "Iterator::any") and len(t[2]) == 2:
        it, f = t[2]
        src = _iter_src(prog, body, it, t[3][1])
        if src is None or not (src[0] == "call" and src[1] == "str::chars" and src[2][0] == x):
            return None
        ws = _is_ws_pred(prog, f)
        if ws is None:
            return None
        if t[1] == "Iterator::all" and ws is True:
            return pol
        if t[1] == "Iterator::any" and ws is False:
            return not pol
    return None


def _iter_src(prog, body, it, block):
    from .engines.schemas import resolve_iter
    return resolve_iter(prog, body, it, block)


def _is_ws_pred(prog, f):
    """True if f is `char::is_whitespace` (or a closure returning it), False if it
    is its negation, None otherwise."""
    if f[0] == "fnref" and f[1] == "char::is_whitespace":
        return True
    if f[0] == "closure":
        from .engines.schemas import closure_return_term
        cb, ret = closure_return_term(prog, f)
        if cb is None:
            return None
        neg = False
        while ret[0] == "un" and ret[1] == "Not":
            neg = not neg
            ret = ret[2]
        if ret[0] == "call" and ret[1] == "char::is_whitespace" and ret[2][0][0] == "param":
            return not neg
    return None


def optchar_eq(fact):
    """OPTCHAR-EQ: the fact compares an Option<char> o with Some(c) for a constant char c.
    Returns (o, code point, polarity of `o == Some(c)`), or None.  Forms: o == Some(c)
    (PartialEq::eq), a comparison / switch on the payload o?Some.0 against c (which is only
    evaluated when o is Some)."""
    atom, pol = fact
    if atom[0] == "b" and atom[1][0] == "call" and atom[1][1] in ("PartialEq::eq", "PartialEq::ne") and len(atom[1][2]) == 2:
        for o, other in (atom[1][2], atom[1][2][::-1]):
            if other[0] == "adt" and other[2] == "Some" and other[3] and other[3][0][1][0] == "char":
                return (o, other[3][0][1][1], pol if atom[1][1] == "PartialEq::eq" else not pol)
    if atom[0] == "cmp" and atom[1] == "Eq":
        for x, c in ((atom[2], atom[3]), (atom[3], atom[2])):
            if c[0] == "char" and x[0] == "field" and x[2] == "0" and x[1][0] == "as" and x[1][2] == "Some":
                return (x[1][1], c[1], pol)
    if atom[0] == "inteq":
        x = atom[1]
        if x[0] == "field" and x[2] == "0" and x[1][0] == "as" and x[1][2] == "Some":
            try:
                return (x[1][1], int(atom[2]), pol)
            except ValueError:
                return None
    return None


class FirstIter:
    """FIRST-ITERATION: recognises tests for "this is the first pass through iterator loop lm".
    Forms: the index of an `.enumerate()` source compared with 0 (== 0, > 0, != 0, >= 1, < 1);
    a bool flag whose value on loop entry is a constant c and which every continuing path sets
    to !c (or leaves at !c); a usize counter starting at 0 that every continuing path increments.
    `source` is the iterated sequence without the enumerate adapter, `element` the element term."""

    def __init__(self, prog, body, lm):
        from .sym import sym_of
        from .paths import loop_state_vars, loop_system, entry_value
        from .poly import poly, Poly
        self.prog, self.body, self.lm = prog, body, lm
        self.idx = None
        self.flags = {}      # phi term -> constant meaning "first"
        self.counters = set()
        src = lm.source
        if src is not None and src[0] == "call" and src[1] == "Iterator::enumerate" and len(src[2]) == 1:
            self.source = src[2][0]
            self.idx = lm.item_proj(0)
            self.element = lm.item_proj(1)
        else:
            self.source = src
            self.element = lm.item
        s = sym_of(body)
        sv = loop_state_vars(body, lm, types=("bool", "usize"))
        if sv:
            trans = [t for t in loop_system(prog, body, lm, list(sv.keys()), []) if t.kind == "back"]
            for pk, (nm, ty) in sv.items():
                phi = s.val_entry(pk, lm.header)
                init = entry_value(prog, body, lm, pk)
                if init is None:
                    continue
                if ty == "bool" and init[0] == "bool":
                    c0 = init[1]
                    ok = bool(trans)
                    for tr in trans:
                        nx = tr.next[pk]
                        if nx == ("bool", not c0):
                            continue
                        if nx == phi and any(a == ("b", phi) and pol == (not c0) for a, pol in tr.facts):
                            continue
                        ok = False
                    if ok:
                        self.flags[phi] = c0
                if ty == "usize" and init == ("int", 0):
                    if trans and all(poly(tr.next[pk]) == poly(phi) + Poly.const(1) for tr in trans):
                        self.counters.add(phi)

    def verdict(self, facts):
        """True: the facts say first iteration; False: a later one; None: undecided."""
        from .poly import fact_nf, poly, GE0, Poly
        out = None
        counters = set(self.counters)
        if self.idx is not None:
            counters.add(self.idx)
        nfs = {fact_nf(f) for f in facts if f[0][0] == "cmp"}
        for c in counters:
            if GE0(-poly(c)) in nfs:
                out = True
            if GE0(poly(c) - Poly.const(1)) in nfs:
                out = False
        for atom, pol in facts:
            if atom[0] == "b" and atom[1] in self.flags:
                out = (pol == self.flags[atom[1]])
        return out


def optchar_in(fact):
    """Set form of OPTCHAR-EQ: (o, {code points}, polarity) - `o` is Some(c) with c in the set."""
    r = optchar_eq(fact)
    if r is not None:
        return (r[0], {r[1]}, r[2])
    atom, pol = fact
    if atom[0] == "in":
        x = atom[1]
        if x[0] == "field" and x[2] == "0" and x[1][0] == "as" and x[1][2] == "Some" and all(c[0] == "char" for c in atom[2]):
            return (x[1][1], {c[1] for c in atom[2]}, pol)
    return None

"""Recognised predicate idiom families (DESIGN.md 4.6).  Each recogniser maps
a pred.py fact to a polarity for the abstract predicate, or None."""


def _emptiness(fact, x, is_empty_names, len_names):
    """Polarity of "x is empty" established by the fact: is_empty(x), or any comparison
    whose normal form is len(x) <= 0 (== 0, < 1) / len(x) >= 1 (> 0, != 0)."""
    from .poly import fact_nf, poly, GE0, Poly
    atom, pol = fact
    if atom[0] == "b" and atom[1][0] == "call" and atom[1][1] in is_empty_names and atom[1][2][0] == x:
        return pol
    if atom[0] == "cmp":
        nf = fact_nf(fact)
        for ln in len_names:
            L = poly(("call", ln, (x,)))
            if nf == GE0(-L):
                return True
            if nf == GE0(L - Poly.const(1)):
                return False
    return None


def empty_fact(fact, x):
    """EMPTY(x): str::is_empty(x), len(x) == 0 / < 1 / <= 0 (and their negations)."""
    return _emptiness(fact, x, ("str::is_empty", "String::is_empty"), ("str::len", "String::len"))


def vec_empty_fact(fact, v):
    """ACC-EMPTY(v): Vec::is_empty(v), len(v) == 0 / < 1 (and their negations)."""
    return _emptiness(fact, v, ("Vec::is_empty", "[]::is_empty"), ("Vec::len", "[]::len"))


def blank_fact(prog, body, fact, x):
    """BLANK(x): x consists of whitespace only.
    trim*().is_empty(); chars().all(char::is_whitespace); !chars().any(|c| !c.is_whitespace())."""
    atom, pol = fact
    for tr in ("str::trim", "str::trim_start", "str::trim_end"):
        e = empty_fact(fact, ("call", tr, (x,)))
        if e is not None:
            return e
    if atom[0] != "b":
        return None
    t = atom[1]
    if t[0] == "callm" and t[1] in ("Iterator::all", "Iterator::any") and len(t[2]) == 2:
        it, f = t[2]
        src = _iter_src(prog, body, it, t[3][1])
        if src is None or not (src[0] == "call" and src[1] == "str::chars" and src[2][0] == x):
            return None
        ws = _is_ws_pred(prog, f)
        if ws is None:
            return None
        if t[1] == "Iterator::all" and ws is True:
            return pol
        if t[1] == "Iterator::any" and ws is False:
            return not pol
    return None


def _iter_src(prog, body, it, block):
    from .engines.schemas import resolve_iter
    return resolve_iter(prog, body, it, block)


def _is_ws_pred(prog, f):
    """True if f is `char::is_whitespace` (or a closure returning it), False if it
    is its negation, None otherwise."""
    if f[0] == "fnref" and f[1] == "char::is_whitespace":
        return True
    if f[0] == "closure":
        from .engines.schemas import closure_return_term
        cb, ret = closure_return_term(prog, f)
        if cb is None:
            return None
        neg = False
        while ret[0] == "un" and ret[1] == "Not":
            neg = not neg
            ret = ret[2]
        if ret[0] == "call" and ret[1] == "char::is_whitespace" and ret[2][0][0] == "param":
            return not neg
    return None


def optchar_eq(fact):
    """OPTCHAR-EQ: the fact compares an Option<char> o with Some(c) for a constant char c.
    Returns (o, code point, polarity of `o == Some(c)`), or None.  Forms: o == Some(c)
    (PartialEq::eq), a comparison / switch on the payload o?Some.0 against c (which is only
    evaluated when o is Some)."""
    atom, pol = fact
    if atom[0] == "b" and atom[1][0] == "call" and atom[1][1] in ("PartialEq::eq", "PartialEq::ne") and len(atom[1][2]) == 2:
        for o, other in (atom[1][2], atom[1][2][::-1]):
            if other[0] == "adt" and other[2] == "Some" and other[3] and other[3][0][1][0] == "char":
                return (o, other[3][0][1][1], pol if atom[1][1] == "PartialEq::eq" else not pol)
    if atom[0] == "cmp" and atom[1] == "Eq":
        for x, c in ((atom[2], atom[3]), (atom[3], atom[2])):
            if c[0] == "char" and x[0] == "field" and x[2] == "0" and x[1][0] == "as" and x[1][2] == "Some":
                return (x[1][1], c[1], pol)
    if atom[0] == "inteq":
        x = atom[1]
        if x[0] == "field" and x[2] == "0" and x[1][0] == "as" and x[1][2] == "Some":
            try:
                return (x[1][1], int(atom[2]), pol)
            except ValueError:
                return None
    return None

"""C07 - first-fit is greedy-maximal."""
from ..sym import sym_of
from ..poly import fact_nf, poly, Poly, negate_cmp, GT0, GE0, EQ0, NE0
from ..describe import describe
from .. import lemmas
from .common import configs_for, has_feature
from .util import Rule, guarded, site_of_block, check_visits_all
from . import models

TITLE = "First-fit is greedy-maximal"
TECHNIQUE = "normal-form comparison of the loop's transition system (path conditions and updates as polynomials) with the stated rule"
DESIGN_REF = "DESIGN.md 4.4, 6/C07"
EXPLANATION = (
    "D: (R1) the transition system of wrap_first_fit's loop is extracted from MIR (one transition per acyclic path of an "
    "iteration, path conditions and next-state values as polynomial normal forms) and compared with the property's own "
    "sentence: a new line is started iff acc + width(f) + penalty_width(f) - line_width > 0 and idx - start > 0; on a break "
    "the accumulator restarts from 0 before adding; in every case acc' = acc + width(f) + whitespace_width(f); acc starts "
    "at 0. (R2) the line width is line_widths.get(lines.len()) falling back to the last listed width and then 0.0, where "
    "`lines` is the output under construction as it was at the start of the iteration. (R3) WrapAlgorithm::wrap's FirstFit "
    "arm passes the words unchanged and the element-wise `as f64` image of the usize widths to wrap_first_fit and returns "
    "its result unchanged. T: the text-level reading follows with C01.R1, C02.R1/R2 and C10. U: none structural."
    " (R5) imported lemma C02 for the text-level restatement: the widths handed to first-fit are the space beside each rendered line's indent."
)
ASSUMPTIONS = ["A-rustc", "f64 comparison and addition are used as the real-valued operations (exactness not claimed)"]
LEVEL_TEXT = (
    "Decides that the code computes exactly the greedy rule stated in the property (comparison operator, penalty term, reset, "
    "whitespace accounting, line-width lookup) on every path of the loop, hence for every fragment sequence; numerical "
    "exactness of f64 is not claimed."
)
LEVEL_NOTE = "Trusted: rustc MIR; the normaliser treats +,-,* over f64 as real arithmetic and int->float casts as transparent."


def configs(tier):
    return configs_for(tier)


def _lw_term(m):
    default = ("call", "Option::unwrap_or", (("call", "[]::last", (m.LW,)), ("float", "0.0")))
    lw = ("call", "Option::unwrap_or", (("call", "[]::get", (m.LW, ("call", "Vec::len", (m.acc_state,)))), default))
    return lw, default


def _r1(prog, rep):
    m = models.first_fit(prog)
    body = m.body
    fn = m.key
    r = Rule(rep, "C07.R1", fn, site=body.span)
    s = sym_of(body)
    r.check(m.width0 == ("float", "0.0"), "acc-init", "the width accumulator starts at 0", "entry value 0.0",
            "the accumulated width starts at %s" % describe(m.width0, body))
    check_visits_all(r, body, m.lm, "first-fit's loop over the fragments")
    # find the compared line width: the atom that is not acc/W/P in the overflow comparison
    pw, ps, pW, pP, pWS = poly(m.width), poly(m.start), poly(m.W), poly(m.P), poly(m.WS)
    pidx = poly(m.idx)
    lw_candidates = set()
    # comparisons that only look at the shape of the width list (how many widths, how many lines so far) belong to
    # the line-width lookup, which R2 checks as a value; they are not break conditions
    shape_atoms = {("call", "[]::len", (m.LW,)), ("call", "Vec::len", (m.LW,)), ("call", "Vec::len", (m.acc_state,)),
                   ("call", "[]::len", (m.acc_state,))}
    lookup_guard = lambda nf: bool(nf[1].atoms()) and nf[1].atoms() <= shape_atoms
    for tr in m.trans:
        for f in tr.facts:
            if f[0][0] == "cmp":
                nf = fact_nf(f)
                if lookup_guard(nf):
                    continue
                for a in nf[1].atoms():
                    if a not in (m.width, m.start, m.W, m.P, m.WS, m.idx):
                        lw_candidates.add(a)
    if len(lw_candidates) != 1:
        r.check(False, "line-width-atom", "", "", "the loop's comparisons involve %d unknown quantities %s; expected exactly "
                "one (the current line width)" % (len(lw_candidates), [describe(a, body)[:80] for a in lw_candidates]))
        return None
    lw = next(iter(lw_candidates))
    A = GT0(pw + pW + pP - poly(lw))
    B = GT0(pidx - ps)
    nA, nB = negate_cmp(A), negate_cmp(B)
    show = lambda p: p.show(lambda a: describe(a, body)[:60])
    for tr in m.trans:
        if tr.kind != "back":
            continue
        nfs = [nf for nf in (fact_nf(f) for f in tr.facts if f[0][0] == "cmp") if not lookup_guard(nf)]
        pushes = [e for e in tr.events if e[1] == "Vec::push"]
        site = site_of_block(body, pushes[0][0]) if pushes else site_of_block(body, tr.path[-2])
        nw = poly(tr.next[m.width_pk])
        if pushes:
            r.check(set(nfs) == {A, B}, "break-cond",
                    "a line is broken iff acc + width + penalty - line_width > 0 and idx - start > 0",
                    "path condition = {%s > 0, %s > 0}" % (show(A[1]), show(B[1])),
                    "the break condition is {%s}, expected {acc + width(f) + penalty_width(f) - line_width > 0, idx - start > 0}"
                    % ", ".join("%s %s" % (k, show(p)) for k, p in nfs), site=site)
            r.check(nw == pW + pWS, "reset", "after a break the accumulator restarts: acc' = width(f) + whitespace_width(f)",
                    "next(acc) = %s" % show(nw),
                    "after a break the accumulator becomes %s, expected width(f) + whitespace_width(f)" % show(nw), site=site)
        else:
            r.check((nA in nfs) or (nB in nfs), "no-break-cond",
                    "without a break one of the two conditions is false", "path condition contains a negated conjunct",
                    "a path that does not break the line has condition {%s}: neither conjunct of the break test is negated"
                    % ", ".join("%s %s" % (k, show(p)) for k, p in nfs), site=site)
            r.check(all(nf in (A, B, nA, nB) for nf in nfs), "no-extra-cond", "no other comparison decides the break",
                    "path condition only uses the two conjuncts",
                    "an extra comparison influences line breaking: {%s}" % ", ".join("%s %s" % (k, show(p)) for k, p in nfs), site=site)
            r.check(nw == pw + pW + pWS, "accumulate", "acc' = acc + width(f) + whitespace_width(f)",
                    "next(acc) = %s" % show(nw),
                    "without a break the accumulator becomes %s, expected acc + width(f) + whitespace_width(f)" % show(nw), site=site)
    return lw


def _r2(prog, rep, lw):
    m = models.first_fit(prog)
    body = m.body
    r = Rule(rep, "C07.R2", m.key, site=body.span)
    want, default = _lw_term(m)
    r.check(lw == want, "lookup",
            "line width = line_widths.get(lines.len()) else last listed width else 0.0",
            describe(lw, body)[:200],
            "the current line width is computed as %s; expected line_widths.get(<lines emitted so far>.len()) with fallback "
            "to line_widths.last() and then 0.0" % describe(lw, body)[:300])


def _r3(prog, rep):
    d = models.dispatch(prog)
    body = d.body
    r = Rule(rep, "C07.R3", d.key, site=body.span)
    arm = d.arms.get("FirstFit")
    ok = arm is not None and arm[0] == "call" and arm[1] == "crate::wrap_algorithms::wrap_first_fit"
    r.check(ok, "firstfit-arm", "the FirstFit variant returns wrap_first_fit(..) unchanged", describe(arm, body)[:160] if arm else "",
            "WrapAlgorithm::wrap does not return the unmodified result of wrap_first_fit for the FirstFit variant (%s)"
            % (describe(arm, body)[:200] if arm else "arm not found"))
    if ok:
        r.check(arm[2][0] == d.words, "words", "words are passed unchanged", "arg 0 is the words parameter",
                "wrap_first_fit receives %s instead of the words parameter" % describe(arm[2][0], body)[:160])
        r.check(models.f64_image_of(prog, arm[2][1], d.widths, body), "widths",
                "line widths are the element-wise `as f64` image of the usize list", describe(arm[2][1], body)[:160],
                "wrap_first_fit receives %s instead of line_widths.iter().map(|w| *w as f64).collect()" % describe(arm[2][1], body)[:200])


def _word_fragment(prog, rep):
    """R4: Word's Fragment impl reports its cached width and the byte lengths of whitespace / penalty."""
    want = {"width": ("field", None, "width"), "whitespace_width": ("call", "str::len", (("field", None, "whitespace"),)),
            "penalty_width": ("call", "str::len", (("field", None, "penalty"),))}
    for meth, w in want.items():
        key = "crate::<core::Word as core::Fragment>::%s" % meth
        body = prog.need_body(key)
        s = sym_of(body)
        r = Rule(rep, "C07.R4", key, site=body.span)
        ret = prog.simp(s.val((0, ()), body.cfg.returns[0], "term"), body)
        SELF = ("param", 1, body.arg_names.get(1, "_1"))
        exp = ("field", SELF, "width") if meth == "width" else ("call", "str::len", (("field", SELF, w[2][0][2]),))
        r.check(ret == ("cast", "IntToFloat", exp, "f64"), "word-%s" % meth, "Word::%s() = %s as f64" % (meth, describe(exp, body)),
                describe(ret, body)[:100], "Word's Fragment::%s returns %s; expected %s as f64 (the quantity the text-level width bound "
                "is stated in)" % (meth, describe(ret, body)[:120], describe(exp, body)))


def run(prog, rep):
    _core(prog, rep)
    # text-level restatement ("in wrapped text every line holds as many fragments as fit"): the widths handed to the
    # algorithm are the configured width minus the indent each line is rendered with (lemma C02)
    lemmas.load_all()
    # ... and the widths of the fragments are the display widths of their text (Word::from, split_words, break_apart)
    for l in ("C10", "C11.R3", "C12.R3", "C12.R6", "C12.R7"):
        stl = lemmas.status(prog, l)
        if stl == "ok":
            rep.ok("C07.R5", "crate", "lemma %s holds in this run" % l, "evaluated: ok", nontrivial=False)
        else:
            rep.violation("C07.R5", "crate", "lemma:" + l, "crate", "lemma %s is %s in this run: fragments of wrapped text carry "
                          "widths that are not the display widths of their text, so lines are not greedy-maximal" % (l, stl))
    st = lemmas.status(prog, "C02")
    if st == "ok":
        rep.ok("C07.R5", "crate", "lemma C02 holds in this run", "evaluated: ok", nontrivial=False)
    else:
        rep.violation("C07.R5", "crate", "lemma:C02", "crate", "lemma C02 is %s in this run: the line widths given to first-fit "
                      "are not the space left beside each line's indent, so wrapped text is not greedy-maximal for its width" % st)


def _core(prog, rep):
    guarded(rep, "C07.R4", "crate::<core::Word as core::Fragment>", lambda: _word_fragment(prog, rep))
    box = {}
    guarded(rep, "C07.R1", "crate::wrap_algorithms::wrap_first_fit", lambda: box.setdefault("lw", _r1(prog, rep)))
    if box.get("lw") is not None:
        guarded(rep, "C07.R2", "crate::wrap_algorithms::wrap_first_fit", lambda: _r2(prog, rep, box["lw"]))
    guarded(rep, "C07.R3", "crate::wrap_algorithms::WrapAlgorithm::wrap", lambda: _r3(prog, rep))


def _lemma_r1(prog):
    from ..engine import Report
    rep = Report("C07")
    rep.set_config(prog.config)
    _core(prog, rep)
    return not rep.violations


lemmas.register("C07.R1", _lemma_r1)


def _lemma_r4(prog):
    from ..engine import Report
    rep = Report("C07")
    rep.set_config(prog.config)
    guarded(rep, "C07.R4", "x", lambda: _word_fragment(prog, rep))
    return not rep.violations


lemmas.register("C07.R4", _lemma_r4)


def _lemma_dispatch(prog):
    """WrapAlgorithm::wrap hands the words and the f64 image of the widths to the selected algorithm and returns its
    arrangement unchanged, on every path (FirstFit arm here, OptimalFit arm in C03.R5)."""
    from ..engine import Report
    rep = Report("C07")
    rep.set_config(prog.config)
    guarded(rep, "C07.R3", "crate::wrap_algorithms::WrapAlgorithm::wrap", lambda: _r3(prog, rep))
    if has_feature(prog, "smawk"):
        from . import C03
        guarded(rep, "C03.R5", "crate::wrap_algorithms::WrapAlgorithm::wrap", lambda: C03._dispatch(prog, rep))
    return not rep.violations


lemmas.register("DISPATCH", _lemma_dispatch)

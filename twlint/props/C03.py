"""C03 - optimal-fit returns a minimum-cost arrangement under the documented penalties."""
from ..sym import sym_of, subterms
from ..engine import AnchorMissing, loop_models
from ..poly import poly, fact_nf, negate_cmp, Poly, GT0, GE0, EQ0, NE0
from ..paths import loop_system, entry_value, loop_state_vars
from ..describe import describe
from .. import lemmas
from .common import configs_for, has_feature
from .util import Rule, guarded, site_of_block, check_visits_all
from . import models, C06

TITLE = "Optimal-fit returns a minimum-cost arrangement under the documented penalties"
TECHNIQUE = "normal-form comparison of the cost closure (ordered decision list of polynomial guards and increments) with the documented cost model + accounting of the prefix sums and the line-number cache"
DESIGN_REF = "DESIGN.md 4.4, 4.3, 6/C03"
EXPLANATION = (
    "D: (R1) prefix sums: widths[0] = 0 and widths[k+1] = widths[k] + width(f_k) + whitespace_width(f_k); the size given to smawk "
    "is widths.len(). (R2) the cost closure, extracted as a decision list over all its paths, equals the documented model: with "
    "lw = widths[j] - widths[i] - ws(f_{j-1}) + pen(f_{j-1}) and t = max(line_widths.get(L(i)) else default, 1): cost = "
    "minima[i].1 + nline_penalty + [lw > t: (lw - t) * overflow_penalty | j < n: (t - lw)^2 | i + 1 == j && lw < t / fraction: "
    "short_last_line_penalty | 0] + [pen(f_{j-1}) > 0: hyphen_penalty]. (R3) line numbers: LineNumbers::new seeds L(0) = 0; "
    "get(p) fills the cache with L(q) = 1 + L(minima[q].0) for q up to p and returns the cached value; the closure asks for L(i). "
    "(R4 = C06.R3/R4) the back-trace follows minima[pos].0. (R5) WrapAlgorithm::wrap passes the words, the element-wise `as f64` "
    "image of the usize widths and the variant's Penalties to wrap_optimal_fit and returns its unwrapped result unchanged. "
    "T: by A-smawk the back-trace is an arg-min of the model R2 whenever the cost matrix is totally monotone. "
    "U (not applicable to static analysis): total monotonicity under the statement's side conditions, exact representability in "
    "f64, and the correctness of the smawk crate are numeric facts, not facts about the shape of this code."
    " (R6) imported lemma C02 for the text-level clause: the line widths passed to the algorithm are the configured width minus the indent each line is rendered with."
)
ASSUMPTIONS = ["A-rustc", "A-smawk", "real-valued reading of f64 +,-,*,/ and comparisons (NaN-free)"]
LEVEL_TEXT = (
    "Decides that the function minimised is exactly the documented cost model (every guard and increment, as polynomial normal "
    "forms on every path of the closure), that the prefix sums and line numbers feeding it are the documented ones, and that the "
    "result is read back faithfully; that the minimiser finds the true minimum rests on smawk's contract and on total "
    "monotonicity, which are not decided."
)
LEVEL_NOTE = "Trusted: rustc MIR, the smawk crate, real arithmetic for f64."

OF = "crate::wrap_algorithms::optimal_fit::wrap_optimal_fit"
LN = "crate::wrap_algorithms::optimal_fit::LineNumbers"


def configs(tier):
    cs = [c for c in configs_for(tier) if c not in ("nodefault", "only-unicode-linebreak", "only-unicode-width")]
    if "only-smawk" not in cs:
        cs.append("only-smawk")
    return cs


def _prefix_sums(prog, rep):
    m = models.optimal_fit(prog)
    body = m.body
    s = sym_of(body)
    D = lambda t: describe(t, body)[:150]
    r = Rule(rep, "C03.R1", OF, site=body.span)
    pre = m.prefix_loop
    if pre is None:
        raise AnchorMissing("wrap_optimal_fit: no loop over the fragments before the smawk call")
    sv = loop_state_vars(body, pre, types=("f64",))
    if len(sv) != 1:
        raise AnchorMissing("wrap_optimal_fit: expected one f64 accumulator in the prefix-sum loop")
    apk = next(iter(sv))
    acc = s.val_entry(apk, pre.header)
    a0 = entry_value(prog, body, pre, apk)
    r.check(a0 == ("float", "0.0"), "acc-init", "the running width starts at 0", D(a0), "the running width starts at %s" % D(a0))
    # widths vec = the vec whose len is smawk's size argument
    size = m.smawk_call[2][1]
    okv = size[0] == "call" and size[1] == "Vec::len" and size[2][0][0] in ("phi", "mut")
    r.check(okv, "size", "smawk's size is widths.len()", D(size), "smawk is given the size %s instead of the length of the prefix-sum vector" % D(size))
    if not okv:
        return
    wv = size[2][0]
    wpk = wv[2] if wv[0] == "phi" else wv[3]
    f = pre.item
    W, WS = ("call", "Fragment::width", (f,)), ("call", "Fragment::whitespace_width", (f,))
    check_visits_all(r, body, pre, "the prefix-width loop")
    for tr in loop_system(prog, body, pre, [apk], [wpk]):
        if tr.kind != "back":
            continue
        nxt = poly(tr.next[apk])
        want = poly(acc) + poly(W) + poly(WS)
        site = site_of_block(body, tr.path[-2])
        r.check(nxt == want, "step", "width' = width + width(f) + whitespace_width(f)", nxt.show(D),
                "the running width becomes %s; expected width + width(f) + whitespace_width(f)" % nxt.show(D), site=site)
        evs = [(n, a[1]) for (_b, n, a, _r) in tr.events]
        r.check(len(evs) == 1 and evs[0][0] == "Vec::push" and poly(evs[0][1]) == want, "push", "each step pushes the new running width",
                str([(n, poly(a).show(D)) for n, a in evs]), "the prefix-sum vector receives %s; expected push(width + width(f) + "
                "whitespace_width(f))" % [(n, poly(a).show(D)) for n, a in evs], site=site)
    pushes_before = [(b, [prog.simp(a, body) for a in s.call_args(b)]) for b, n in models.mutators_of(prog, body, wpk)
                     if n == "Vec::push" and b not in pre.blocks]
    r.check(len(pushes_before) == 1 and pushes_before[0][1][1] == ("float", "0.0") and body.cfg.dominates(pushes_before[0][0], pre.header),
            "first-zero", "widths[0] = 0 is pushed before the loop", "", "outside the loop the prefix-sum vector receives %s; expected "
            "exactly one push(0.0) before the loop" % [[D(x) for x in a[1:]] for _b, a in pushes_before])
    bad = [n for b, n in models.mutators_of(prog, body, wpk) if n not in ("Vec::push", "Vec::with_capacity", "Vec::new")]
    r.check(not bad, "only-push", "the prefix sums are only pushed", "", "the prefix-sum vector is also modified by %s" % bad)


def _cost(prog, rep):
    m = models.optimal_fit(prog)
    parent = m.body
    cl = m.smawk_call[2][2]
    if cl[0] != "closure":
        raise AnchorMissing("smawk is not given a closure")
    cb = prog.need_body(cl[1])
    cm = models.closure_model(prog, cb, state_types=())
    D = lambda t: describe(t, cb)[:110]
    r = Rule(rep, "C03.R2", cb.key, site=cb.span)
    r3 = Rule(rep, "C03.R3", cb.key, site=cb.span)
    MIN, I, J = (("param", k, cb.arg_names.get(k, "_%d" % k)) for k in (2, 3, 4))
    env = cm.env
    # roles of the captures by their value in the parent
    cap = {}
    for n, v in env.items():
        if n.endswith("#state"):
            continue
        if v == m.F:
            cap["F"] = ("upvar", n)
        elif v == m.LW:
            cap["LW"] = ("upvar", n)
        elif v == m.PEN:
            cap["PEN"] = ("upvar", n)
        elif v[0] == "call" and v[1] == LN + "::new":
            cap["LN"] = ("upvar", n)
            r3.check(v[2][0] == ("call", "[]::len", (m.F,)), "ln-size", "the line-number cache is sized by fragments.len()", "", "", nontrivial=False)
        elif v[0] == "call" and v[1] == "Option::unwrap_or":
            cap["DEF"] = ("upvar", n)
            want = ("call", "Option::unwrap_or", (("call", "[]::last", (m.LW,)), ("float", "0.0")))
            r.check(v == want, "default-width", "the default line width is line_widths.last() else 0.0", describe(v, parent)[:100],
                    "the default line width is %s; expected line_widths.last().copied().unwrap_or(0.0)" % describe(v, parent)[:120])
        elif v[0] in ("call",) and v[1] in ("Vec::with_capacity", "Vec::new"):
            cap["WIDTHS"] = ("upvar", n)
    for need in ("F", "LW", "PEN", "LN", "DEF", "WIDTHS"):
        if need not in cap:
            raise AnchorMissing("cost closure: capture for %s not recognised (captures: %s)" % (need, sorted(env)))
    wj = ("call", "Index::index", (cap["WIDTHS"], J))
    wi = ("call", "Index::index", (cap["WIDTHS"], I))
    fl = ("index", cap["F"], ("bin", "Sub", J, ("int", 1)))
    WS = ("call", "Fragment::whitespace_width", (fl,))
    P = ("call", "Fragment::penalty_width", (fl,))
    LNO = ("call", LN + "::get", (cap["LN"], I, MIN))
    T = ("call", "f64::max", (("call", "Option::unwrap_or", (("call", "[]::get", (cap["LW"], LNO)), cap["DEF"])), ("float", "1.0")))
    pen = lambda name: ("cast", "IntToFloat", ("field", cap["PEN"], name), "f64")
    pLW = poly(wj) - poly(wi) - poly(WS) + poly(P)
    pT = poly(T)
    base = poly(("field", ("index", MIN, I), "1")) + poly(pen("nline_penalty"))
    n = ("call", "[]::len", (cap["F"],))
    TF = ("bin", "Div", T, pen("short_last_line_fraction"))
    A = GT0(pLW - pT)
    B = GT0(poly(n) - poly(J))
    C = EQ0(fact_nf((("cmp", "Eq", ("bin", "Add", I, ("int", 1)), J), True))[1])
    Dd = GT0(poly(TF) - pLW)
    H = GT0(poly(P))
    N = negate_cmp
    regions = [
        ("overflow", [A], base + (pLW - pT) * poly(pen("overflow_penalty"))),
        ("gap", [N(A), B], base + (pT - pLW) * (pT - pLW)),
        ("short-last", [N(A), N(B), C, Dd], base + poly(pen("short_last_line_penalty"))),
        ("last", [N(A), N(B), C, N(Dd)], base),
        ("last-multi", [N(A), N(B), N(C)], base),
    ]
    expected = {}
    for name, conds, cost in regions:
        expected[(name, "hyphen")] = (frozenset(conds + [H]), cost + poly(pen("hyphen_penalty")))
        expected[(name, "plain")] = (frozenset(conds + [N(H)]), cost)
    got = []
    # a comparison of the looked-up line width with a constant only selects between the arms of `max(width, 1.0)`
    # written as a conditional: it is part of the value T, not a case of the model
    raw_lw = T[2][0]
    value_guard = lambda nf: bool(nf[1].atoms()) and nf[1].atoms() <= {raw_lw}
    for rp in cm.returns:
        nfs = frozenset(nf for nf in (fact_nf(f) for f in rp.facts if f[0][0] == "cmp") if not value_guard(nf))
        got.append((nfs, poly(rp.ret), rp))
    show = lambda p: p.show(D)
    matched = set()
    for (name, hy), (conds, cost) in expected.items():
        hits = [g for g in got if g[0] == conds]
        if not hits:
            r.check(False, "case:%s,%s" % (name, hy), "", "", "the cost closure has no path for the case %s/%s of the documented model "
                    "(conditions %s)" % (name, hy, sorted("%s %s" % (k, show(p)) for k, p in conds)))
            continue
        # several paths may lead to one case (a value-level match inside the closure splits paths, not cases)
        for g in hits:
            matched.add(id(g[2]))
        g = next((h for h in hits if h[1] != cost), hits[0])
        r.check(g[1] == cost, "cost:%s,%s" % (name, hy), "case %s/%s: cost = %s" % (name, hy, show(cost)[:200]), "normal forms equal",
                "in the case %s (%s) the closure returns %s; the documented model gives %s" % (name, hy, show(g[1])[:300], show(cost)[:300]),
                site=site_of_block(cb, g[2].path[-2]))
    extra = [g for g in got if id(g[2]) not in matched]
    r.check(not extra, "no-extra-paths", "every path of the closure is a case of the documented model", "%d paths" % len(got),
            "the cost closure has %d path(s) outside the documented model, e.g. under %s" % (
                len(extra), sorted("%s %s" % (k, show(p)) for k, p in extra[0][0]) if extra else ""))


def _line_numbers(prog, rep):
    nb = prog.need_body(LN + "::new")
    gb = prog.need_body(LN + "::get")
    r = Rule(rep, "C03.R3", LN + "::get", site=gb.span)
    s = sym_of(nb)
    D = lambda t: describe(t, gb)[:150]
    ret = prog.simp(s.val((0, ()), nb.cfg.returns[0], "term"), nb)
    pushes = [[prog.simp(a, nb) for a in s.call_args(b)] for b, t, c in nb.calls() if c.name == "Vec::push"]
    r.check(len(pushes) == 1 and pushes[0][1] == ("int", 0), "seed", "LineNumbers::new seeds L(0) = 0", "push(0)",
            "LineNumbers::new seeds the cache with %s" % [[describe(x, nb) for x in p[1:]] for p in pushes])
    sg = sym_of(gb)
    SELF, I, MIN = (("param", k, gb.arg_names.get(k, "_%d" % k)) for k in (1, 2, 3))
    cell = ("field", SELF, "line_numbers")
    lms = loop_models(prog, gb)
    if len(lms) != 1:
        raise AnchorMissing("LineNumbers::get: expected one loop")
    lm = lms[0]
    conds = []
    for a, b in lm.lp["exits"]:
        conds.append(prog.simp(sg.switch_value(a), gb))
    lenc = lambda f: ("call", "Vec::len", (("call", f, (cell,)),))
    # every pass round the loop runs under len < i + 1, every way out under its negation (any spelling of the test)
    from ..paths import loop_system as _ls
    from ..poly import fact_nf as _fnf, negate_cmp as _neg
    wants = [GT0(poly(I) + poly(("int", 1)) - poly(lenc(f))) for f in ("RefCell::borrow_mut", "RefCell::borrow")]
    trs = _ls(prog, gb, lm, [], [])
    okc = bool(trs)
    for tr in trs:
        nfs_ = {_fnf(f) for f in tr.facts if f[0][0] == "cmp"}
        if tr.kind == "back":
            okc = okc and any(w in nfs_ for w in wants)
        else:
            okc = okc and any(_neg(w) in nfs_ for w in wants)
    r.check(okc, "fill-until", "the cache is filled while len < i + 1", D(conds[0]) if conds else "", "the fill loop runs while %s; expected "
            "cache.len() < i + 1" % [D(c) for c in conds])
    pushes = [(b, [prog.simp(a, gb) for a in sg.call_args(b)]) for b, t, c in gb.calls() if c.name == "Vec::push"]
    okp = False
    if len(pushes) == 1 and pushes[0][0] in lm.blocks:
        v = pushes[0][1][1]
        pos = lenc("RefCell::borrow")
        want = poly(("int", 1)) + poly(("call", LN + "::get", (SELF, ("field", ("index", MIN, pos), "0"), MIN)))
        okp = poly(v) == want
    r.check(okp, "recurrence", "L(q) = 1 + L(minima[q].0) with q = cache.len()", D(pushes[0][1][1]) if pushes else "",
            "the cache receives %s; expected 1 + get(minima[cache.len()].0)" % [D(p[1][1]) for p in pushes])
    ret = prog.simp(sg.val((0, ()), gb.cfg.returns[0], "term"), gb)
    r.check(ret == ("call", "Index::index", (("call", "RefCell::borrow", (cell,)), I)), "lookup", "get returns cache[i]", D(ret),
            "get returns %s instead of cache[i]" % D(ret))


def _dispatch(prog, rep):
    d = models.dispatch(prog)
    body = d.body
    r = Rule(rep, "C03.R5", d.key, site=body.span)
    D = lambda t: describe(t, body)[:160]
    arm = d.arms.get("OptimalFit")
    ok = arm is not None and arm[0] == "call" and arm[1] == "Result::unwrap" and arm[2][0][0] == "call" and arm[2][0][1] == OF
    r.check(ok, "arm", "the OptimalFit variant returns wrap_optimal_fit(..).unwrap() unchanged", D(arm) if arm else "",
            "WrapAlgorithm::wrap does not return the unwrapped result of wrap_optimal_fit for the OptimalFit variant (%s)" % (D(arm) if arm else "?"))
    if ok:
        a = arm[2][0][2]
        SELF = ("param", 1, body.arg_names.get(1, "_1"))
        r.check(a[0] == d.words, "words", "words are passed unchanged", "", "wrap_optimal_fit receives %s instead of the words" % D(a[0]))
        r.check(models.f64_image_of(prog, a[1], d.widths, body), "widths", "line widths are the `as f64` image of the usize list", "",
                "wrap_optimal_fit receives %s as line widths" % D(a[1]))
        r.check(a[2] == ("field", ("as", SELF, "OptimalFit"), "0"), "penalties", "the variant's Penalties are passed", "",
                "wrap_optimal_fit receives %s instead of the variant's penalties" % D(a[2]))


def run(prog, rep):
    if not has_feature(prog, "smawk"):
        return
    guarded(rep, "C03.R1", OF, lambda: _prefix_sums(prog, rep))
    guarded(rep, "C03.R2", OF, lambda: _cost(prog, rep))
    guarded(rep, "C03.R3", LN, lambda: _line_numbers(prog, rep))
    guarded(rep, "C06.R3", OF, lambda: C06._optimal_chain(prog, rep))
    guarded(rep, "C03.R5", "crate::wrap_algorithms::WrapAlgorithm::wrap", lambda: _dispatch(prog, rep))
    # text level ("wrap/fill ... produce, for each paragraph, such a minimum-cost arrangement"): the line widths the
    # cost model is evaluated with are the space beside the indent each line is rendered with (C02: slow-path plumbing)
    if not _IN_LEMMA[0]:
        lemmas.load_all()
        st = lemmas.status(prog, "C02")
        if st == "ok":
            rep.ok("C03.R6", "crate", "lemma C02 holds in this run", "evaluated: ok", nontrivial=False)
        else:
            rep.violation("C03.R6", "crate", "lemma:C02", "crate", "lemma C02 is %s in this run: the widths handed to optimal-fit are not "
                          "those of the rendered lines, so the arrangement is optimal for the wrong line widths" % st)


_IN_LEMMA = [False]


def _run_core(prog, rep):
    _IN_LEMMA[0] = True
    try:
        run(prog, rep)
    finally:
        _IN_LEMMA[0] = False


def _lemma(prog):
    from ..engine import Report
    rep = Report("C03")
    rep.set_config(prog.config)
    _run_core(prog, rep)
    return not any(v.rule == "C03.R1" for v in rep.violations)


lemmas.register("C03.R1", _lemma)


def _lemma_r2(prog):
    from ..engine import Report
    rep = Report("C03")
    rep.set_config(prog.config)
    _run_core(prog, rep)
    return not any(v.rule in ("C03.R2", "C03.R3") for v in rep.violations)


lemmas.register("C03.R2", _lemma_r2)

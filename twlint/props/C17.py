"""C17 - fill_inplace only turns spaces into newlines and agrees with fill."""
from ..sym import sym_of, subterms, overlaps
from ..engine import AnchorMissing, loop_models
from ..poly import poly
from ..paths import loop_system, entry_value, loop_state_vars
from ..describe import describe
from ..engines.schemas import range_parts, sum_parts
from .. import lemmas
from .common import configs_for
from .util import Rule, guarded, site_of_block, check_visits_all
from . import models

TITLE = "fill_inplace only turns spaces into newlines and agrees with fill"
TECHNIQUE = "affine accounting of the two byte offsets (linear normal forms), store/trace rule on the byte buffer, provenance of the word and line lists"
DESIGN_REF = "DESIGN.md 4.3, 4.5, 6/C17"
EXPLANATION = (
    "D: (R1) ACCT: the outer loop runs over text.split('\\n') with offset0 = 0 and offset' = offset + len(line) + 1; the inner "
    "loop runs over all arranged lines but the last with line_offset0 = offset and line_offset' = line_offset + S (S = sum of "
    "len(word)+len(whitespace) over the line's words) and records the index line_offset' - 1. (R2) STORE: between into_bytes "
    "and from_utf8 the buffer is only written through bytes[i] = b'\\n' for recorded i; no push/insert/remove/truncate; the "
    "rebuilt string replaces *text. (R3) sibling agreement with wrap: words come from WordSeparator::AsciiSpace.find_words(line), "
    "lines from wrap_first_fit(&words, &[width as f64]); no splitter, no breaker; the paragraph separator is '\\n'. (R4) the "
    "inner loop ranges over [..len-1] of the arrangement. "
    "T: the byte at a recorded index is the last whitespace byte of the last word of a non-final line, which is a space "
    "(C11.R8: every word followed by another has non-empty whitespace; C06.R2: lines non-empty); same length, differs only at "
    "recorded positions; agreement with wrap from R3, C07 and C01.R1. U: none structural."
)
ASSUMPTIONS = ["A-rustc", "A-std (str::split, String::into_bytes/from_utf8)"]
LEVEL_TEXT = (
    "Decides the offset arithmetic as equations between linear normal forms on every path, that the only write to the buffer "
    "is the constant b'\\n' at recorded offsets, and that the word list and arrangement are produced by the documented "
    "components; that the overwritten byte is a space is derived from C11/C06 lemmas evaluated in the same run."
)
LEVEL_NOTE = "Trusted: rustc MIR, std; lemmas C11.R1/R8 and C06.R2 for 'the byte is a space'."

KEY = "crate::fill::fill_inplace"
NL = ("char", 10)


def configs(tier):
    return configs_for(tier)


def _check(prog, rep):
    body = prog.need_body(KEY)
    s = sym_of(body)
    D = lambda t: describe(t, body)[:150]
    TEXT = ("param", 1, body.arg_names.get(1, "_1"))
    WIDTH = ("param", 2, body.arg_names.get(2, "_2"))
    lms = [lm for lm in loop_models(prog, body) if lm.kind == "iter"]
    outer = None
    for lm in lms:
        if lm.source is not None and lm.source[0] == "call" and lm.source[1] == "str::split":
            outer = lm
    if outer is None:
        raise AnchorMissing("fill_inplace: no loop over text.split(..)")
    r1 = Rule(rep, "C17.R1", KEY, site=body.span)
    r3 = Rule(rep, "C17.R3", KEY, site=body.span)
    r4 = Rule(rep, "C17.R4", KEY, site=body.span)
    r3.check(outer.source[2] == (TEXT, NL), "paragraphs", "paragraphs are text.split('\\n')", D(outer.source),
             "fill_inplace splits %s; expected text.split('\\n')" % D(outer.source))
    line = outer.item
    inner = [lm for lm in lms if lm is not outer and lm.blocks < outer.blocks]
    if len(inner) != 1:
        raise AnchorMissing("fill_inplace: expected one inner loop over the arranged lines")
    inner = inner[0]
    # R3 / R4: provenance of the arrangement
    src = inner.source
    words_t = ("call", "Iterator::collect", (("call", "crate::word_separators::WordSeparator::find_words",
                                              (("adt", "word_separators::WordSeparator", "AsciiSpace", ()), line)),))
    arr = ("call", "crate::wrap_algorithms::wrap_first_fit", (words_t, ("array", (("cast", "IntToFloat", WIDTH, "f64"),))))
    # `v.iter().take(n)` visits the same elements as `v[..n].iter()` whenever n <= v.len() (and never panics)
    if src is not None and src[0] == "call" and src[1] == "Iterator::take" and len(src[2]) == 2 \
            and src[2][0][0] == "call" and src[2][0][1] in ("[]::iter", "Vec::iter"):
        src = ("call", "Index::index", (src[2][0][2][0], ("adt", "std::ops::RangeTo", "RangeTo", (("end", src[2][1]),))))
    elif src is not None and src[0] == "call" and src[1] in ("[]::iter", "Vec::iter") and src[2][0][0] == "call" \
            and src[2][0][1] == "Index::index":
        src = src[2][0]
    oksrc = src is not None and src[0] == "call" and src[1] == "Index::index"
    base = src[2][0] if oksrc else None
    r3.check(base == arr, "arrangement", "lines = wrap_first_fit(&AsciiSpace.find_words(line).collect(), &[width as f64])", D(base) if base else "?",
             "the arrangement is %s; expected wrap_first_fit over WordSeparator::AsciiSpace.find_words(line) with the single width "
             "`width as f64` (no splitter, no breaker)" % (D(base)[:300] if base else "?"))
    kind, st, en = range_parts(src[2][1]) if oksrc else (None, None, None)
    r4.check(kind == "to" and en is not None and poly(en) == poly(("call", "Vec::len", (base,))) - poly(("int", 1)), "all-but-last",
             "the inner loop covers all lines but the last", "[..len - 1]",
             "the inner loop covers %s of the arrangement; expected [..len-1] (no newline after the last line of a paragraph)" % D(src[2][1]) if oksrc else "?")
    # R1 accounting
    osv = loop_state_vars(body, outer, types=("usize",))
    isv = loop_state_vars(body, inner, types=("usize",))
    if len(isv) != 1:
        raise AnchorMissing("fill_inplace: expected one usize variable carried by the inner loop, found %s" % sorted(n for n, _ in isv.values()))
    lo_pk = next(iter(isv))
    off_pks = [pk for pk in osv if pk != lo_pk]
    if len(off_pks) != 1:
        raise AnchorMissing("fill_inplace: expected one usize offset carried by the outer loop only, found %s" % sorted(n for n, _ in osv.values()))
    off_pk = off_pks[0]
    off = s.val_entry(off_pk, outer.header)
    lo = s.val_entry(lo_pk, inner.header)
    r1.check(entry_value(prog, body, outer, off_pk) == ("int", 0), "offset-init", "offset starts at 0", "0",
             "the paragraph offset starts at %s" % D(entry_value(prog, body, outer, off_pk)))
    r1.check(entry_value(prog, body, inner, lo_pk) == off, "line-offset-init", "line_offset starts at the paragraph offset", "offset",
             "the line offset starts at %s instead of the paragraph's offset" % D(entry_value(prog, body, inner, lo_pk)))
    # the indices vector
    idxroots = set()
    for b in inner.blocks:
        if body.blocks[b]["term"]["k"] == "call" and body.callee(b).name == "Vec::push":
            for r_ in s.mut_calls().get(b, ()):
                idxroots.add(r_)
    if len(idxroots) != 1:
        raise AnchorMissing("fill_inplace: expected one vector of recorded indices")
    idxv = next(iter(idxroots))
    words = inner.item
    check_visits_all(r1, body, inner, "fill_inplace's loop over the arranged lines of a paragraph")
    for tr in loop_system(prog, body, inner, [lo_pk], [idxv]):
        if tr.kind != "back":
            continue
        site = site_of_block(body, tr.path[-2])
        nxt = tr.next[lo_pk]
        sums = [x for x in subterms(nxt) if x[0] == "call" and x[1] == "Iterator::sum"]
        if len(sums) != 1:
            r1.check(False, "sum", "", "", "the line offset advances by %s, which does not contain one sum over the line's words" % D(nxt), site=site)
            continue
        S = sums[0]
        sp = sum_parts(prog, S)
        oksum = False
        if sp is not None:
            sl_, cb, summands, param = sp
            want = sorted([("call", "str::len", (("field", param, "word"),)), ("call", "str::len", (("field", param, "whitespace"),))], key=repr)
            oksum = sl_ == words and sorted(summands, key=repr) == want
        r1.check(oksum, "sum-shape", "S sums len(word)+len(whitespace) over the words of this line", "iter().map(..).sum()",
                 "the summed quantity is %s" % D(S), site=site)
        r1.check(poly(nxt) == poly(lo) + poly(S), "advance", "line_offset' = line_offset + S", "next = line_offset + S",
                 "the line offset becomes %s; expected line_offset + S" % poly(nxt).show(D), site=site)
        evs = [(n, a[1]) for (_b, n, a, _r) in tr.events]
        okp = len(evs) == 1 and evs[0][0] == "Vec::push" and poly(evs[0][1]) == poly(lo) + poly(S) - poly(("int", 1))
        r1.check(okp, "record", "the recorded index is line_offset' - 1 (the last space of the line)", "push(line_offset + S - 1)",
                 "the recorded index is %s; expected line_offset + S - 1" % [(n, poly(a).show(D)) for n, a in evs], site=site)
    ffb = [b for b, t, c in body.calls() if c.name == "crate::wrap_algorithms::wrap_first_fit"]
    check_visits_all(r1, body, outer, "fill_inplace's loop over the paragraphs")
    for tr in loop_system(prog, body, outer, [off_pk], []):
        if tr.kind != "back":
            continue
        r3.check(len(ffb) == 1 and ffb[0] in tr.path, "every-paragraph-arranged", "every paragraph is arranged with wrap_first_fit",
                 "the call lies on every path through the paragraph loop",
                 "a path through the paragraph loop skips the wrap_first_fit arrangement: such paragraphs are not wrapped like "
                 "wrap() would wrap them", site=site_of_block(body, tr.path[-2]))
        nxt = tr.next[off_pk]
        r1.check(poly(nxt) == poly(off) + poly(("call", "str::len", (line,))) + poly(("int", 1)), "offset-advance",
                 "offset' = offset + len(line) + 1", "next(offset)", "the paragraph offset becomes %s; expected offset + line.len() + 1"
                 % poly(nxt).show(D), site=site_of_block(body, tr.path[-2]))
    # R2: the byte buffer
    r2 = Rule(rep, "C17.R2", KEY, site=body.span)
    ib = [b for b, t, c in body.calls() if c.name == "String::into_bytes"]
    fu = [b for b, t, c in body.calls() if c.name == "String::from_utf8"]
    if len(ib) != 1 or len(fu) != 1:
        raise AnchorMissing("fill_inplace: into_bytes / from_utf8 not found")
    bytes_pk = s.resolve_pk((body.blocks[ib[0]]["term"]["dest"]["l"], ()))
    src_b = prog.simp(s.call_args(ib[0])[0], body)
    r2.check(src_b[0] == "callm" and src_b[1] == "std::mem::take" and src_b[2][0] == ("mutref", (1, ("deref",))), "buffer-source",
             "the buffer is the taken contents of *text", D(src_b), "the byte buffer is %s, not the contents of *text" % D(src_b))
    muts = [(b, n) for b, n in models.mutators_of(prog, body, bytes_pk)]
    r2.check(all(n == "IndexMut::index_mut" for _b, n in muts) and len(muts) >= 1, "buffer-mutators",
             "the buffer is only accessed through bytes[i] between into_bytes and from_utf8", str([n for _b, n in muts]),
             "the byte buffer is modified by %s: its length or other bytes could change" % [n for _b, n in muts])
    stores = []
    for b in sorted(body.cfg.reach):
        for i, st in enumerate(body.blocks[b]["stmts"]):
            if st["k"] == "assign":
                pk = s.lhs_pk(b, i)
                if pk[0] == bytes_pk[0] and pk[1] and overlaps((pk[0], ()), bytes_pk):
                    stores.append((b, prog.simp(s.rvalue(st["rv"], b, i), body), st["span"]))
    r2.check(len(stores) == 1 and stores[0][1] == ("int", 10), "store-newline", "the only store into the buffer is the constant b'\\n'",
             str([D(v) for _b, v, _s in stores]), "the buffer receives %s; expected exactly one store of b'\\n' (10)" % [D(v) for _b, v, _s in stores])
    for b, n in muts:
        args = [prog.simp(a, body) for a in s.call_args(b)]
        from ..engines.schemas import _strip_item, _iterator_origin
        call, path = _strip_item(args[1])
        oki = False
        if call is not None and call[1] == "Iterator::next" and call[2][0][0] == "mutref" and path == ["0"]:
            ipk = call[2][0][1]
            o = _iterator_origin(prog, body, ipk, s.val(ipk, call[3][1], "term"))
            o = prog.simp(o, body) if o is not None else None
            if o is not None and o[0] in ("phi", "mut"):
                oki = (o[2] if o[0] == "phi" else o[3]) == idxv
        r2.check(oki, "store-index", "stores go to recorded indices only", D(args[1]),
                 "a byte is stored at %s, which is not an item of the recorded index list" % D(args[1]), site=site_of_block(body, b))
    fin = prog.simp(s.call_args(fu[0])[0], body)
    r2.check(fin[0] in ("phi", "mut") and (fin[2] if fin[0] == "phi" else fin[3])[0] == bytes_pk[0], "rebuild", "from_utf8 rebuilds the string from the same buffer",
             D(fin), "from_utf8 is given %s instead of the edited buffer" % D(fin))
    # *text = ...
    wr = []
    for b in sorted(body.cfg.reach):
        for i, st in enumerate(body.blocks[b]["stmts"]):
            if st["k"] == "assign" and s.lhs_pk(b, i) == (1, ("deref",)):
                wr.append(prog.simp(s.rvalue(st["rv"], b, i), body))
    r2.check(len(wr) == 1 and wr[0][0] == "call" and wr[0][1] == "Result::unwrap" and wr[0][2][0][1] == "String::from_utf8", "write-back",
             "*text is replaced by the rebuilt string", "", "*text is assigned %s" % [D(x) for x in wr])
    lemmas.load_all()
    # both sides must see the same words: Word::from puts exactly the trailing ' ' run into `whitespace` (C11.R3) - the
    # bytes fill_inplace keeps and wrap drops -, and wrap's side passes them unchanged through split_words (C12.R1)
    # and the reassembly (C01.R1)
    for l in ("C11.R1", "C11.R3", "C06.R2", "C07.R1", "C12.R1", "C01.R1"):
        st = lemmas.status(prog, l)
        if st == "ok":
            rep.ok("C17.R0", "crate", "lemma %s holds in this run" % l, "evaluated: ok", nontrivial=False)
        else:
            rep.violation("C17.R0", "crate", "lemma:" + l, "crate", "lemma %s is %s in this run" % (l, st))


def run(prog, rep):
    guarded(rep, "C17.R1", KEY, lambda: _check(prog, rep))


def _mk(rule):
    def f(prog):
        from ..engine import Report
        rep = Report("C17")
        rep.set_config(prog.config)
        guarded(rep, "C17.R1", KEY, lambda: _check(prog, rep))
        return not any(v.rule == rule for v in rep.violations)
    return f


lemmas.register("C17.R1", _mk("C17.R1"))
lemmas.register("C17.R2", _mk("C17.R2"))
lemmas.register("C17.R3", _mk("C17.R3"))

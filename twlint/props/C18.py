"""C18 - dedent removes exactly the longest common whitespace margin."""
from ..sym import sym_of, subterms
from ..engine import AnchorMissing, loop_models, iter_chain
from ..poly import poly, fact_nf, GT0
from ..paths import loop_system, PathView
from ..describe import describe
from ..idioms import blank_fact
from ..engines.schemas import range_parts, index_iter_base, item_source, resolve_iter
from .common import configs_for
from .util import Rule, guarded, site_of_block, check_visits_all
from . import models
from .C19 import _paths_to_return

TITLE = "dedent removes exactly the longest common whitespace margin"
TECHNIQUE = "control-dependence (non-interference) and index-provenance rules on the margin variable + append-trace grammar of the output pass"
DESIGN_REF = "DESIGN.md 4.6, 4.5, 6/C18"
EXPLANATION = (
    "D: (R1) non-interference of blank lines: the margin is the variable consumed by the output pass (starts_with / split_at); "
    "on every path on which it receives a non-constant value sliced from a line, the path condition contains evidence that "
    "this line has a non-whitespace character (BLANK idiom family, or a failed char::is_whitespace test on a char of that "
    "line). (R2) every such value is &line[..k] with k an offset yielded by line.char_indices() (seed: the first char failing "
    "is_whitespace, all earlier chars passed it; narrowing: the first char differing from the current margin, all earlier "
    "chars equal). (R3) output pass, per line of s.lines(): [push_str(line.split_at(margin.len()).1) iff "
    "line.starts_with(margin) && !BLANK(line)], push('\\n'). (R4) a single trailing truncate(len-1) iff the result ends with a "
    "newline and s does not. (R5) seeding, narrowing and output iterate str::lines of the same s. "
    "T: line count and final newline preserved; blank lines come out empty and never influence the margin; the margin is a "
    "common whitespace prefix of the non-blank lines and maximal because narrowing cuts only at the first mismatch; "
    "idempotence and dedent(indent(s,p)) = dedent(s) follow. U: maximality is argued on paper from R2."
    " U (found by randomised testing of the unmodified tree, not decided by these rules): idempotence fails for a line that ends in CR CR LF, because str::lines strips the CR LF pair while the output pass writes LF only; the statement restricts only the indent clause to texts without carriage returns."
)
ASSUMPTIONS = ["A-rustc", "A-std: str::lines, char_indices, zip, starts_with, split_at"]
LEVEL_TEXT = (
    "Decides structurally that no whitespace-only line can reach an assignment of the margin, that the margin is always a "
    "prefix cut at a scanned character offset, and that the output pass emits exactly one newline per line and the tail "
    "after the margin only for non-blank lines; the characterisation of the margin as the longest common whitespace prefix "
    "is then a paper argument."
)
LEVEL_NOTE = "Trusted: rustc MIR, std string iterators; predicate idioms in twlint/idioms.py."

KEY = "crate::indentation::dedent"


def configs(tier):
    return configs_for(tier)


def _lines_of(prog, body, lm, S):
    """Is the loop driven by str::lines(S) (directly or through a shared `&mut` iterator)?"""
    arg0 = lm.next_call[2][0] if lm.next_call and lm.next_call[2] else None
    if arg0 is None:
        return False
    src = resolve_iter(prog, body, arg0, lm.next_block)
    return src is not None and src[0] == "call" and src[1] == "str::lines" and src[2][0] == S


def _first_nonws_find(prog, body, k, L):
    """k is L.find(<not whitespace>)?Some.0 or L.find(<not whitespace>).unwrap_or(L.len()):
    returns (the find call, has_default) or None."""
    from ..engines.schemas import closure_return_term
    call, dflt = None, False
    if k[0] == "call" and k[1] == "Option::unwrap_or" and len(k[2]) == 2 and k[2][1] == ("call", "str::len", (L,)):
        call, dflt = k[2][0], True
    elif k[0] == "field" and k[2] == "0" and k[1][0] == "as" and k[1][2] == "Some":
        call = k[1][1]
    if call is None or call[0] != "call" or call[1] != "str::find" or len(call[2]) != 2 or call[2][0] != L:
        return None
    cb, ret = closure_return_term(prog, call[2][1])
    if cb is None:
        return None
    if ret[0] == "un" and ret[1] == "Not" and ret[2][0] == "call" and ret[2][1] == "char::is_whitespace" \
            and ret[2][2][0][0] == "param" and ret[2][2][0][1] == 2:
        return (call, dflt)
    return None


def _char_of_line(prog, body, c, L):
    """c is a char item of an iteration over L.chars() / L.char_indices() (possibly zipped); returns the
    corresponding index term (or True for chars())."""
    r = item_source(prog, body, c)
    if r is None:
        return None
    src, path, call = r
    chain, root, _ = iter_chain(src)
    p = list(path)
    if not p or p[0] != "0":
        return None
    p = p[1:]
    t = src
    for name in chain:
        if name in ("Iterator::by_ref", "IntoIterator::into_iter"):
            t = t[2][0]
            continue
        if name == "Iterator::zip":
            if p and p[0] == "0":
                p = p[1:]
                t = t[2][0]
                continue
            return None
        if name == "Iterator::enumerate":
            if p and p[0] == "1":
                p = p[1:]
                t = t[2][0]
                continue
            return None
        if name == "str::char_indices" and t[2][0] == L and p == ["1"]:
            # index term: same item, field 0
            base = c[1]  # strip the final .1
            return ("field", base, "0")
        if name == "str::chars" and t[2][0] == L and p == []:
            return True
        return None
    return None


def _check(prog, rep):
    body = prog.need_body(KEY)
    s = sym_of(body)
    D = lambda t: describe(t, body)[:140]
    S = ("param", 1, body.arg_names.get(1, "_1"))
    res = models.returned_string_root(prog, body)
    lms = [lm for lm in loop_models(prog, body) if lm.kind == "iter"]
    NL = ("char", 10)
    # output loop: lines(S) loop with push events on the result
    out_lm = None
    for lm in lms:
        if any(b in lm.blocks and n in ("String::push", "String::push_str") for b, n in models.mutators_of(prog, body, res)):
            if out_lm is None or len(lm.blocks) > len(out_lm.blocks):
                out_lm = lm
    if out_lm is None:
        raise AnchorMissing("dedent: no loop appending to the result")
    r5 = Rule(rep, "C18.R5", KEY, site=body.span)
    r5.check(_lines_of(prog, body, out_lm, S), "output-lines", "the output pass iterates s.lines()", D(out_lm.source),
             "the output pass iterates %s instead of s.lines()" % D(out_lm.source))
    L_out = out_lm.item
    check_visits_all(Rule(rep, "C18.R3", KEY, site=body.span), body, out_lm, "dedent's output pass")
    trans_out = loop_system(prog, body, out_lm, [], [res])
    # margin: second argument of starts_with(line, M) in the output pass
    margin = None
    for tr in trans_out:
        for atom, pol in tr.facts:
            if atom[0] == "b" and atom[1][0] == "call" and atom[1][1] == "str::starts_with" and atom[1][2][0] == L_out:
                margin = atom[1][2][1]
    if margin is None or margin[0] != "phi":
        raise AnchorMissing("dedent: the output pass does not test line.starts_with(<margin variable>)")
    mpk = margin[2]

    # ---- R3: output trace
    r3 = Rule(rep, "C18.R3", KEY, site=body.span)
    cases = set()
    for tr in trans_out:
        if tr.kind != "back":
            continue
        evs = [(n, a[1]) for (_b, n, a, _r) in tr.events]
        site = site_of_block(body, tr.events[0][0]) if tr.events else body.span
        sw = None
        blank = None
        for f in tr.facts:
            atom, pol = f
            if atom[0] == "b" and atom[1][0] == "call" and atom[1][1] == "str::starts_with" and atom[1][2] == (L_out, margin):
                sw = pol
            b = blank_fact(prog, body, f, L_out)
            if b is not None:
                blank = b
        emit = (sw is True and blank is False)
        skip = (sw is False) or (blank is True)
        if not (emit or skip):
            r3.check(False, "branching", "", "", "a path of the output pass decides neither starts_with(line, margin) nor BLANK(line)", site=site)
            continue
        cases.add(emit)
        tail = ("call", "Index::index", (L_out, ("adt", "std::ops::RangeFrom", "RangeFrom", (("start", ("call", "str::len", (margin,))),))))
        exp = ([("String::push_str", tail)] if emit else []) + [("String::push", NL)]
        r3.check(evs == exp, "trace:%s" % ("emit" if emit else "skip"),
                 "a %s line contributes %s" % ("non-blank margin-prefixed" if emit else "blank or unprefixed",
                                               [(n.split("::")[-1], D(a)) for n, a in exp]), "append trace matches",
                 "for a %s line the result receives %s; expected %s" % (
                     "non-blank line starting with the margin" if emit else "blank (or unprefixed) line",
                     [(n.split("::")[-1], D(a)) for n, a in evs], [(n.split("::")[-1], D(a)) for n, a in exp]), site=site)
    r3.check(cases == {True, False}, "cases", "both output cases exist", str(cases),
             "the output pass does not distinguish non-blank prefixed lines from the others", nontrivial=False)

    # ---- R4: trailing truncate
    r4 = Rule(rep, "C18.R4", KEY, site=body.span)
    seen = set()
    for e in [b for a, b in out_lm.lp["exits"]]:
        for path in _paths_to_return(body, e):
            pv = PathView(prog, body, path)
            evs = [(n, a) for (_b, n, a, _r) in pv.events([res])]
            resv = None
            c_res = c_s = None
            for atom, pol in pv.facts():
                if atom[0] == "b" and atom[1][0] == "call" and atom[1][1] == "str::ends_with" and atom[1][2][1] == NL:
                    if atom[1][2][0] == S:
                        c_s = pol
                    else:
                        c_res = pol
                        resv = atom[1][2][0]
            should = (c_res is True and c_s is False)
            seen.add(should)
            if should:
                okk = len(evs) == 1 and ((evs[0][0] == "String::truncate" and
                                          poly(evs[0][1][1]) == poly(("call", "String::len", (resv,))) - poly(("int", 1)))
                                         or evs[0][0] == "String::pop")   # the last char is the 1-byte '\n'
                r4.check(okk, "truncate", "the final newline is removed when s has none", "truncate(len - 1)",
                         "when the result ends with a newline and s does not, the result receives %s; expected truncate(len-1)"
                         % [(n, [D(x) for x in a[1:]]) for n, a in evs])
            else:
                r4.check(not evs, "no-truncate", "otherwise the result is left alone", "no mutation",
                         "the result is modified after the output pass (%s) although the condition "
                         "result.ends_with('\\n') && !s.ends_with('\\n') does not hold on this path" % [n for n, _ in evs])
    r4.check(True in seen and False in seen, "cases", "both final-newline cases exist", str(seen),
             "the trailing truncate is not conditional on result.ends_with('\\n') && !s.ends_with('\\n')", nontrivial=False)

    # ---- R1/R2: definitions of the margin
    r1 = Rule(rep, "C18.R1", KEY, site=body.span)
    r2 = Rule(rep, "C18.R2", KEY, site=body.span)
    defsites = s.defsites(mpk)
    ndefs = 0
    narrowing = {}
    for b, idxs in sorted(defsites.items()):
        for i in idxs:
            if i == "term":
                r1.check(False, "margin-by-call", "", "", "the margin is assigned from a call result", site=site_of_block(body, b))
                continue
            v = prog.simp(s.rvalue(body.blocks[b]["stmts"][i]["rv"], b, i), body)
            if v[0] == "str":
                r2.check(v[1] == "", "margin-const", "the margin starts as the empty string", '""',
                         "the margin is initialised to the constant %r" % v[1], nontrivial=False)
                continue
            ndefs += 1
            site = body.blocks[b]["stmts"][i]["span"]
            lm = body.cfg.innermost_loop(b)
            lmm = [x for x in lms if lm is not None and x.header == lm["header"]]
            if not lmm:
                # a `break` arm: the block lies on an exit path of a line loop
                from ..paths import loop_paths
                for x in lms:
                    if any(k == "exit" and b in pth for k, pth in loop_paths(body, x)):
                        if not lmm or len(x.blocks) > len(lmm[0].blocks):
                            lmm = [x]
            if not lmm:
                r1.check(False, "def-outside-loop", "", "", "the margin receives %s outside any line loop" % D(v), site=site)
                continue
            lmm = lmm[0]
            r5.check(_lines_of(prog, body, lmm, S), "def-loop-lines", "the margin is computed while iterating s.lines()",
                     D(lmm.source), "the margin is computed in a loop over %s, not s.lines()" % D(lmm.source), site=site)
            L = lmm.item
            trans = loop_system(prog, body, lmm, [mpk], [])
            for tr in trans:
                if b not in tr.path[:-1] and not (tr.kind == "exit" and b in tr.path):
                    continue
                nv = tr.next[mpk]
                if nv == s.val_entry(mpk, lmm.header):
                    continue
                # R2 shape
                okshape = nv[0] == "call" and nv[1] == "Index::index" and nv[2][0] == L
                kind, st_, k = range_parts(nv[2][1]) if okshape else (None, None, None)
                r2.check(okshape and kind == "to", "slice-shape", "the new margin is &line[..k] of the current line", D(nv),
                         "the margin becomes %s; expected a prefix &line[..k] of the line being scanned" % D(nv), site=site)
                if not (okshape and kind == "to"):
                    continue
                # evidence of a non-whitespace character in L, and provenance of k
                ev = None
                how = None
                for f in tr.facts:
                    bf = blank_fact(prog, body, f, L)
                    if bf is False:
                        ev = "BLANK(line) is false on this path"
                    atom, pol = f
                    if atom[0] == "b" and atom[1][0] == "call" and atom[1][1] == "char::is_whitespace" and not pol:
                        ci = _char_of_line(prog, body, atom[1][2][0], L)
                        if ci is not None:
                            ev = ev or "a char of this line failed is_whitespace on this path"
                            if ci is not True and ci == k:
                                how = "k is the offset of the first char failing is_whitespace"
                    if atom[0] == "cmp" and atom[1] == "Eq" and not pol:
                        for x, y in ((atom[2], atom[3]), (atom[3], atom[2])):
                            ci = _char_of_line(prog, body, x, L)
                            if ci is not None and ci is not True and ci == k:
                                how = how or "k is the offset of the first char differing from the margin"
                # k = line.find(|c| !c.is_whitespace()) [.unwrap_or(line.len())]: the offset of the first non-whitespace
                # char by definition of str::find; the line has one iff the search succeeded (k < line.len())
                fk = _first_nonws_find(prog, body, k, L)
                if fk is not None:
                    how = how or "k is the offset of the first char failing is_whitespace"
                    nfs = {fact_nf(f) for f in tr.facts if f[0][0] == "cmp"}
                    some = any(a[0] == "variant" and a[1] == fk[0] and ((a[2] == "Some") == pol) for a, pol in tr.facts)
                    if some or (fk[1] and GT0(poly(("call", "str::len", (L,))) - poly(k)) in nfs):
                        ev = ev or "the search for a non-whitespace char succeeded on this path"
                r1.check(ev is not None, "nonblank-evidence",
                         "a margin update from a line is conditional on that line having a non-whitespace char", ev or "",
                         "the margin is updated from a line (to %s) on a path whose condition does not establish that the line "
                         "contains a non-whitespace character: a whitespace-only line can change the margin" % D(nv), site=site)
                if how is not None and "failing is_whitespace" in how:
                    # a seed (a cut that does not look at the previous margin) may happen once: the line loop is left
                    r2.check(tr.kind == "exit", "seed-once", "after seeding the margin from a line the seed loop is left",
                             "the seeding path is an exit path", "the margin is seeded from a line's leading whitespace on a path that "
                             "stays in the loop: every later non-blank line would overwrite the margin instead of narrowing it", site=site)
                if how is not None and "differing from the margin" in how:
                    narrowing[lmm.header] = lmm
                r2.check(how is not None, "cut-offset", "k is a scanned character offset of the same line", how or "",
                         "the margin is cut at %s, which is not the offset of the char at which the scan of this line stopped "
                         "(first non-whitespace char / first mismatch with the margin)" % D(k), site=site)
            # scanning loops keep going only while the test holds
            for inner in lms:
                if inner.blocks < lmm.blocks and inner is not lmm:
                    for tr in loop_system(prog, body, inner, [], []):
                        if tr.kind != "back":
                            continue
                        good = False
                        for atom, pol in tr.facts:
                            if atom[0] == "b" and atom[1][0] == "call" and atom[1][1] == "char::is_whitespace" and pol:
                                good = True
                            if atom[0] == "cmp" and atom[1] == "Eq" and pol:
                                good = True
                        r2.check(good, "scan-continues", "the scan continues only past whitespace / matching chars",
                                 "back edge condition", "the character scan in %s continues past a char without testing it" % KEY,
                                 site=site_of_block(body, inner.header), nontrivial=False)
    for _h, nlm in sorted(narrowing.items()):
        check_visits_all(r2, body, nlm, "dedent's narrowing loop over the remaining lines")
    r1.check(ndefs >= 2, "defs-found", "seed and narrowing definitions of the margin found", "%d definitions" % ndefs,
             "expected at least two non-constant definitions of the margin (seed, narrowing), found %d" % ndefs, nontrivial=False)


def run(prog, rep):
    guarded(rep, "C18.R1", KEY, lambda: _check(prog, rep))

"""C06 - both line-breaking algorithms return an ordered partition of the fragments."""
from ..engine import AnchorMissing
from ..sym import sym_of
from ..poly import fact_nf, poly, Poly, GT0, GE0, EQ0, NE0
from ..describe import describe
from ..engines.schemas import range_parts
from .. import lemmas
from .common import configs_for, has_feature
from .util import Rule, guarded, site_of_block
from . import models

TITLE = "Both line-breaking algorithms return an ordered partition of the fragments"
TECHNIQUE = "partition-chaining dataflow rule over MIR loops + signature parametricity check"
DESIGN_REF = "DESIGN.md 4.2, 4.8, 6/C06"
EXPLANATION = (
    "D: (R1) wrap_first_fit and wrap_optimal_fit are generic over T with the single bound T: Fragment, Fragment's only "
    "supertrait is Debug and all its methods take &self and return f64, and unsafe is forbidden: returned slices can only "
    "be sub-slices of the input. (R2) CHAIN-forward on wrap_first_fit: the cut index starts at 0, every emitted piece is "
    "fragments[start..idx] followed by start := idx and by nothing else that defines start, the in-loop emission is "
    "dominated by idx > start, the final emission fragments[start..] dominates the return, and the output vector is only "
    "pushed to. (R3) CHAIN-backward on wrap_optimal_fit: pos starts at fragments.len(), each emission is "
    "fragments[minima[pos].0 .. pos] with pos := minima[pos].0, the loop is entered unconditionally and left exactly when "
    "pos == 0, reverse() follows the loop and precedes Ok. (R4) minima is the unmodified result of "
    "smawk::online_column_minima(0.0, widths.len(), ..) and Err is only built under is_infinite(cost). "
    "T: contiguous, ordered, complete; first-fit lines non-empty by the idx > start guard; optimal-fit lines non-empty by "
    "A-smawk (minima[j].0 < j). U: nothing beyond A-smawk for finite widths."
)
ASSUMPTIONS = ["A-rustc", "A-std (slice indexing yields sub-slices)", "A-smawk (result[j].0 < j)"]
LEVEL_TEXT = (
    "Decides on the current MIR that both algorithms emit pieces by a chained index (each piece starts where the previous "
    "ended, first at 0 / last at len, nothing else moves the index) and that no other code can put anything into the "
    "result; this is the structural content of 'ordered partition' for every input. Non-emptiness for optimal-fit relies "
    "on the smawk contract."
)
LEVEL_NOTE = "Trusted: rustc MIR, slice indexing semantics, smawk's contract for minima[j].0 < j."


def configs(tier):
    return configs_for(tier)


def _sig_rule(prog, rep):
    frag = prog.facts.item("crate::core::Fragment")
    r = Rule(rep, "C06.R1", "crate::core::Fragment")
    if frag is None:
        rep.anchor_missing("C06.R1", "crate::core::Fragment", "trait Fragment not found")
        return
    sup = [x for x in frag.get("super", []) if "Sized" not in x]
    r.check(all(("Debug" in x) for x in sup), "supertraits",
            "Fragment's supertraits are within {Debug}", "super = %s" % sup,
            "Fragment has a supertrait other than Debug (%s): a bound like Clone/Default would let the algorithms "
            "manufacture fragments" % sup)
    fns = [a for a in frag.get("assoc", []) if a.get("sig")]
    okf = all(a["sig"].replace(" ", "").startswith("for<'a>fn(&'aSelf)->f64") or
              a["sig"].replace(" ", "") in ("fn(&Self)->f64", "for<'a>fn(&'aSelf)->f64") for a in fns)
    r.check(okf and len(fns) == len(frag.get("assoc", [])), "methods",
            "every Fragment item is a method fn(&self) -> f64", "%d methods" % len(fns),
            "Fragment has an item that is not fn(&self) -> f64: %s" % [(a["name"], a.get("sig")) for a in frag.get("assoc", [])])
    names = ["crate::wrap_algorithms::wrap_first_fit"]
    if has_feature(prog, "smawk"):
        names.append("crate::wrap_algorithms::optimal_fit::wrap_optimal_fit")
    for n in names:
        it = prog.facts.item(n)
        rr = Rule(rep, "C06.R1", n)
        if it is None:
            rep.anchor_missing("C06.R1", n, "function not found")
            continue
        tys = [g for g in it.get("generics", []) if g.endswith(":type")]
        preds = [p for p in it.get("predicates", []) if "Sized" not in p and "'" != p.strip()[:1]]
        tp = [p for p in preds if ": " in p and not p.split(":")[0].strip().startswith("'")]
        rr.check(len(tys) == 1 and all("Fragment" in p for p in tp) and len(tp) == 1, "bounds",
                 "single type parameter bounded only by Fragment", "generics=%s predicates=%s" % (tys, tp),
                 "%s must be generic over one T: Fragment only; found generics=%s predicates=%s" % (n, tys, tp))
        sig = it.get("sig", "").replace(" ", "")
        rr.check("Vec<&'a[T]>" in sig and "&'a[T]" in sig.split("->")[0], "lifetimes",
                 "result slices carry the lifetime of the fragments parameter", it.get("sig", ""),
                 "signature of %s does not tie the result to the fragments slice: %s" % (n, it.get("sig")))


def _first_fit_chain(prog, rep):
    m = models.first_fit(prog)
    body = m.body
    fn = m.key
    r = Rule(rep, "C06.R2", fn, site=body.span)
    r.check(m.start0 == ("int", 0), "start-init", "cut index starts at 0", "entry value of the usize loop variable is 0",
            "the cut index does not start at 0 (entry value %s): the first fragments would be dropped" % describe(m.start0, body))
    npush = 0
    for tr in m.trans:
        if tr.kind != "back":
            continue
        pushes = [e for e in tr.events if e[1] == "Vec::push"]
        others = [e for e in tr.events if e[1] != "Vec::push"]
        site = site_of_block(body, pushes[0][0]) if pushes else site_of_block(body, tr.path[-2])
        if others:
            r.check(False, "acc-mutator", "", "", "the result vector is modified by %s inside the loop" % others[0][1], site=site)
        nxt = tr.next[m.start_pk]
        if pushes:
            npush += 1
            if len(pushes) != 1:
                r.check(False, "double-push", "", "", "more than one emission on one path through the loop", site=site)
                continue
            piece = pushes[0][2][1]
            okp = piece[0] == "call" and piece[1] == "Index::index" and piece[2][0] == m.F
            kind, st, en = range_parts(piece[2][1]) if okp else (None, None, None)
            r.check(okp and kind == "range" and st == m.start and en == m.idx, "piece",
                    "in-loop emission is fragments[start..idx]", describe(piece, body),
                    "in-loop emission is %s, expected fragments[<cut index>..<enumerate index>]" % describe(piece, body), site=site)
            r.check(nxt == m.idx, "advance", "after an emission start := idx", "next(start) = %s" % describe(nxt, body),
                    "after emitting fragments[start..idx] the cut index becomes %s instead of idx: fragments are "
                    "dropped or repeated" % describe(nxt, body), site=site)
            nfs = [fact_nf(f) for f in tr.facts if f[0][0] == "cmp"]
            want = GT0(poly(m.idx) - poly(m.start))
            r.check(want in nfs, "nonempty-guard", "the in-loop emission is dominated by idx > start",
                    "path condition contains idx - start > 0",
                    "the in-loop emission is not guarded by idx > start: an empty line can be emitted", site=site)
        else:
            r.check(nxt == m.start, "no-advance", "without an emission the cut index is unchanged",
                    "next(start) = start", "the cut index changes to %s on a path that emits nothing" % describe(nxt, body), site=site)
    r.check(npush >= 1, "emission-found", "loop has an emitting path", "%d emitting path(s)" % npush,
            "no path through the loop emits a line", nontrivial=False)
    # final emission: on every exit path from the loop to return there is exactly one push of fragments[start..]
    s = sym_of(body)
    finals = []
    for b, n in models.mutators_of(prog, body, m.acc):
        if b in m.lm.blocks:
            continue
        if n == "Vec::push":
            finals.append(b)
        elif n not in ("Vec::new", "Vec::with_capacity"):
            r.check(False, "acc-mutator-after", "", "", "the result vector is modified by %s outside the loop" % n,
                    site=site_of_block(body, b))
    okfinal = False
    for b in finals:
        if all(body.cfg.dominates(b, ret) for ret in body.cfg.returns):
            args = [prog.simp(a, body) for a in s.call_args(b)]
            piece = args[1]
            if piece[0] == "call" and piece[1] == "Index::index" and piece[2][0] == m.F:
                kind, st, en = range_parts(piece[2][1])
                if kind == "from" and st == m.start:
                    okfinal = True
    r.check(okfinal and len(finals) == 1, "final-piece", "the final emission fragments[start..] dominates the return",
            "one push after the loop", "after the loop there must be exactly one emission of fragments[start..] that "
            "dominates the return (found %d pushes): the tail of the input would be lost or duplicated" % len(finals))
    init = models.acc_init(prog, body, m.acc, m.lm)
    r.check(init in ("Vec::new", "Vec::with_capacity"), "acc-init", "the result starts as an empty Vec", str(init),
            "the result vector is not created empty (%s)" % init, nontrivial=False)


def _optimal_chain(prog, rep):
    m = models.optimal_fit(prog)
    body = m.body
    fn = m.key
    s = sym_of(body)
    r = Rule(rep, "C06.R3", fn, site=body.span)
    want0 = ("call", "[]::len", (m.F,))
    r.check(m.pos0 == want0, "pos-init", "back-trace starts at fragments.len()", describe(m.pos0, body),
            "the back-trace starts at %s instead of fragments.len()" % describe(m.pos0, body))
    prev = ("field", ("call", "Index::index", (m.minima, m.pos)), "0")
    for tr in m.bt_trans:
        pushes = [e for e in tr.events if e[1] == "Vec::push"]
        site = site_of_block(body, pushes[0][0]) if pushes else body.span
        if len(pushes) != 1 or len(tr.events) != 1:
            r.check(False, "one-push", "", "", "each back-trace step must push exactly one line (found events %s)"
                    % [e[1] for e in tr.events], site=site)
            continue
        piece = pushes[0][2][1]
        okp = piece[0] == "call" and piece[1] == "Index::index" and piece[2][0] == m.F
        kind, st, en = range_parts(piece[2][1]) if okp else (None, None, None)
        r.check(okp and kind == "range" and st == prev and en == m.pos, "piece",
                "emission is fragments[minima[pos].0 .. pos]", "start = minima[pos].0, end = pos",
                "back-trace emits %s, expected fragments[minima[pos].0..pos]" % describe(piece, body)[:200], site=site)
        nxt = tr.next[m.pos_pk]
        dead = tr.kind == "exit" and not _read_after(body, m.bt, m.pos_pk[0])
        r.check(nxt == prev or dead, "advance", "pos := minima[pos].0", "next(pos) = minima[pos].0" if not dead else
                "pos is not read after the loop", "after an emission pos becomes %s instead of minima[pos].0" % describe(nxt, body)[:200], site=site)
        nfs = [fact_nf(f) for f in tr.facts if f[0][0] == "cmp"]
        if tr.kind == "exit":
            r.check(EQ0(poly(prev)) in nfs, "exit-cond", "the loop is left exactly when the new pos is 0",
                    "exit path condition: minima[pos].0 == 0", "the back-trace loop exits under %s, expected pos == 0" % nfs, site=site)
        else:
            r.check(NE0(poly(prev)) in nfs, "continue-cond", "the loop continues while the new pos is not 0",
                    "back edge condition: minima[pos].0 != 0", "the back-trace loop continues under %s, expected pos != 0" % nfs, site=site)
    # entered unconditionally on the Ok path; reverse after loop, before Ok
    okret = m.ok_returns
    r.check(okret and all(body.cfg.dominates(m.bt.header, b) for b in okret), "loop-dominates-ok",
            "the back-trace loop dominates Ok(lines)", "header bb%d dominates the Ok return" % m.bt.header,
            "Ok(lines) can be reached without running the back-trace loop")
    rev = [b for b, n in models.mutators_of(prog, body, m.acc) if n == "[]::reverse"]
    exits = [b for a, b in m.bt.lp["exits"]]
    r.check(len(rev) == 1 and rev[0] not in m.bt.blocks and all(body.cfg.dominates(rev[0], b) for b in okret)
            and all(body.cfg.dominates(e, rev[0]) for e in exits), "reverse",
            "lines.reverse() follows the loop and precedes Ok", "one reverse() call, dominated by the loop exit",
            "the lines collected back-to-front must be reversed exactly once after the loop (found %d reverse calls)" % len(rev))
    bad = [(b, n) for b, n in models.mutators_of(prog, body, m.acc)
           if n not in ("Vec::push", "[]::reverse", "DerefMut::deref_mut", "Vec::with_capacity", "Vec::new")]
    r.check(not bad, "acc-mutators", "the result is only pushed to and reversed", "mutators: push, reverse",
            "the result vector is also modified by %s" % [n for _, n in bad])
    # R4
    r4 = Rule(rep, "C06.R4", fn, site=site_of_block(body, m.smawk_block))
    sc = m.smawk_call
    r4.check(m.minima == sc or (m.minima[0] in ("call", "callm") and m.minima[1] == "smawk::online_column_minima"),
             "minima-unmodified", "minima is the unmodified smawk result", "value at the back-trace is the call result",
             "minima is modified between the smawk call and the back-trace (%s)" % describe(m.minima, body)[:120])
    args = sc[2]
    r4.check(args[0] == ("float", "0.0"), "initial", "initial cost is 0.0", describe(args[0], body),
             "smawk is started with initial value %s, not 0.0" % describe(args[0], body))
    from ..pred import facts_at
    for eb in m.err_sites:
        facts = facts_at(prog, body, eb)
        okk = any(pol and a[0] == "b" and a[1][0] == "call" and a[1][1] == "f64::is_infinite" for a, pol in facts)
        for a, pol in facts:
            # minima.iter().any(|(_, cost)| cost.is_infinite())
            if pol and a[0] == "b" and a[1][0] in ("call", "callm") and a[1][1] == "Iterator::any" and len(a[1][2]) == 2:
                from ..engines.schemas import closure_return_term
                cb, ret = closure_return_term(prog, a[1][2][1])
                if cb is not None and ret[0] == "call" and ret[1] == "f64::is_infinite":
                    okk = True
        r4.check(okk, "err-guard", "Err(OverflowError) only under is_infinite(cost)", "dominating guard",
                 "Err is returned on a path not guarded by cost.is_infinite()", site=site_of_block(body, eb))


def _mentions_local(x, l):
    if isinstance(x, dict):
        if x.get("l") == l and ("p" in x or "ty" in x):
            return True
        return any(_mentions_local(v, l) for v in x.values())
    if isinstance(x, list):
        return any(_mentions_local(v, l) for v in x)
    return False


def _read_after(body, lm, local):
    """Is the local read in a block reachable after leaving the loop?"""
    seen = set()
    work = [b for a, b in lm.lp["exits"]]
    while work:
        b = work.pop()
        if b in seen or b in lm.blocks:
            continue
        seen.add(b)
        blk = body.blocks[b]
        for st in blk["stmts"]:
            if st["k"] == "assign" and _mentions_local(st.get("rv"), local):
                return True
        t = blk["term"]
        if _mentions_local({k: v for k, v in t.items() if k not in ("dest",)}, local):
            return True
        work.extend(body.cfg.succ[b])
    return False


def run(prog, rep):
    if prog.config == "default":
        from .C01 import _witness
        _witness(prog, rep, ["W2Ok", "W2Fail", "W3Fail"], "C06.R1", "result slices are tied to the fragments slice and fragments cannot be constructed generically")
    guarded(rep, "C06.R1", "crate::core::Fragment", lambda: _sig_rule(prog, rep))
    guarded(rep, "C06.R2", "crate::wrap_algorithms::wrap_first_fit", lambda: _first_fit_chain(prog, rep))
    if has_feature(prog, "smawk"):
        guarded(rep, "C06.R3", "crate::wrap_algorithms::optimal_fit::wrap_optimal_fit", lambda: _optimal_chain(prog, rep))
    if not _IN_LEMMA[0]:
        # the partition contract also holds for the public entry point WrapAlgorithm::wrap, which must hand the
        # selected algorithm's arrangement back unchanged on every path
        lemmas.load_all()
        stp = lemmas.status(prog, "C04.WRAPPATH")
        if stp == "ok":
            rep.ok("C06.R5", "crate", "lemma C04.WRAPPATH holds in this run: the algorithms return for every input", "evaluated: ok", nontrivial=False)
        else:
            rep.violation("C06.R5", "crate", "lemma:C04.WRAPPATH", "crate", "lemma C04.WRAPPATH is %s in this run: a line-breaking "
                          "function can panic or hang, so it returns no partition at all for some input" % stp)
        st = lemmas.status(prog, "DISPATCH")
        if st == "ok":
            rep.ok("C06.R5", "crate", "lemma DISPATCH (C07.R3 / C03.R5) holds in this run", "evaluated: ok", nontrivial=False)
        else:
            rep.violation("C06.R5", "crate", "lemma:DISPATCH", "crate", "lemma DISPATCH is %s in this run: WrapAlgorithm::wrap does not "
                          "return the selected algorithm's arrangement unchanged on every path" % st)


_IN_LEMMA = [False]


def _lemma(rule):
    def f(prog):
        from ..engine import Report
        rep = Report("C06")
        rep.set_config(prog.config)
        if rule == "C06.R2":
            guarded(rep, "C06.R2", "x", lambda: _first_fit_chain(prog, rep))
        else:
            if not has_feature(prog, "smawk"):
                return True
            guarded(rep, "C06.R3", "x", lambda: _optimal_chain(prog, rep))
        return not rep.violations
    return f


lemmas.register("C06.R2", _lemma("C06.R2"))
lemmas.register("C06.R3", _lemma("C06.R3"))

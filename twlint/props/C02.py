"""C02 - first-fit lines fit the width unless the line is one unbreakable fragment."""
from ..sym import sym_of, subterms
from ..engine import AnchorMissing
from ..paths import PathView
from ..describe import describe
from ..idioms import empty_fact, vec_empty_fact
from ..pred import facts_at
from .. import lemmas
from .common import configs_for
from .util import Rule, guarded, site_of_block
from . import models

TITLE = "First-fit lines fit the width unless the line is one unbreakable fragment"
TECHNIQUE = "provenance agreement between the indent that is measured and the indent that is rendered (decision tables over path conditions) + normal form of the width list"
DESIGN_REF = "DESIGN.md 4.6, 6/C02"
EXPLANATION = (
    "D: (R1) indent agreement: the width list handed to the line breaker is [width (-) display_width(M0), width (-) "
    "display_width(M1)]; M1 is subsequent_indent and M0, as a function of whether the output vector is empty on entry, is "
    "the same selector that chooses the indent rendered on the paragraph's first line (initial_indent if empty, else "
    "subsequent_indent). (R2) both elements use saturating subtraction from options.width. (R3) the limit given to "
    "break_words is element 1 of that same list. (R4) the zero-width sentinel word is inserted only under break_words and "
    "a non-empty initial indent (the only case in which the first line can be narrower than the limit words were broken to). "
    "(R5 = C07.R1/R2) the greedy test includes the penalty and uses the width of the line being filled. (R6 = C12.R6/R7) "
    "broken pieces are at most the limit unless one character. "
    "T: a line with more than one fragment satisfies sum(w+ws) - ws_last + pen_last <= width (-) dw(indent actually rendered); "
    "widths are additive (C10). U: what counts as 'no break opportunity' with break_words off; display_width across cuts "
    "inside malformed escapes (excluded by the quantifier)."
    " (R6) same rule as C05.R5 (fragment boundaries are computed by escape-aware scans); the hyphen splitter and the ASCII-space separator are genuine findings recorded in KNOWN_FINDINGS.txt."
    " U (found by randomised testing of the unmodified tree, not decided by these rules): when the indent is at least as wide as the width, consecutive zero-width fragments (e.g. ZWSP followed by a combining mark) stay on one line, because the greedy test acc + w + p > 0 is false for them."
)
ASSUMPTIONS = ["A-rustc", "A-std", "C10 additivity of display_width (paper)"]
LEVEL_TEXT = (
    "Decides that each line is measured against the indent it is rendered with, for every paragraph and both indents, by "
    "comparing the decision table of the measured indent with that of the rendered one; together with the greedy rule (C07) "
    "and the piece bound (C12), evaluated in the same run, the width bound follows."
)
LEVEL_NOTE = "Trusted: rustc MIR; the arithmetic conclusion (line width <= limit) is derived on paper from the decided clauses."

SLOW = "crate::wrap::wrap_single_line_slow_path"


def configs(tier):
    return configs_for(tier)


def decision_table(prog, body, term, block, acc0):
    """{ACC-EMPTY polarity (True/False/None): set(resolved values)} over all entry paths to `block`."""
    table = {}
    for path in models.entry_paths_to(prog, body, block):
        pv = PathView(prog, body, path)
        from ..paths import contradictory
        if contradictory(pv.facts()):
            continue
        v = prog.simp(pv.resolve(term), body)
        ae = None
        for f in pv.facts():
            x = vec_empty_fact(f, acc0)
            if x is not None:
                ae = x
        table.setdefault(ae, set()).add(v)
    return table


def _check(prog, rep):
    m = models.slow_path(prog)
    body = m.body
    s = sym_of(body)
    D = lambda t: describe(t, body)[:150]
    r1 = Rule(rep, "C02.R1", SLOW, site=site_of_block(body, m.wrap_block))
    r2 = Rule(rep, "C02.R2", SLOW, site=site_of_block(body, m.wrap_block))
    r1.check(not m.stray_pushes, "only-loop-pushes", "every line of the slow path comes out of the measured arrangement",
             "no push outside the reassembly loop", "wrap_single_line_slow_path also adds a line outside its reassembly loop (%s): "
             "that line was never measured against the width" % [nm for _b, nm in m.stray_pushes])
    wl = s.call_args(m.wrap_block)[2]        # unsimplified: may contain phis
    wl_s = prog.simp(wl, body)
    if wl_s[0] not in ("tuple", "array") or len(wl_s[1]) != 2:
        raise AnchorMissing("slow path: the line-width list is not a two-element array (%s)" % D(wl_s))
    dw = "crate::core::display_width"
    Ms = []
    for k, e in enumerate(wl_s[1]):
        # element may be a phi over two saturating_sub terms: look through
        cands = [e]
        if e[0] == "phi":
            cands = [prog.simp(v, body) for v in s.phi_inputs(e).values()]
        ok = all(c[0] == "call" and c[1] == "usize::saturating_sub" and c[2][0] == m.WIDTH and c[2][1][0] == "call"
                 and c[2][1][1] == dw for c in cands)
        r2.check(ok, "elem%d" % k, "element %d is options.width (-) display_width(<indent>), saturating" % k, D(e),
                 "element %d of the line-width list is %s; expected options.width.saturating_sub(display_width(indent))" % (k, D(e)))
        Ms.append(e)
    acc0 = m.acc_entry
    acc0 = prog.simp(acc0, body)
    # measured indents as decision tables
    def indent_of(v):
        if v[0] == "call" and v[1] == "usize::saturating_sub":
            return v[2][1][2][0]
        return None
    tabs = []
    for k in (0, 1):
        t = decision_table(prog, body, ("field", wl, str(k)) if wl[0] not in ("tuple", "array") else wl[1][k], m.wrap_block, acc0)
        mt = {}
        for ae, vals in t.items():
            mt[ae] = set(indent_of(v) for v in vals)
        tabs.append(mt)
    # rendered indents: from the reassembly loop's paths
    rendered_first = {}
    for rec in m.recs:
        if rec.last_none or rec.init is None:
            continue
        from .C08 import _pushed_prefix
        p = _pushed_prefix(rec.init)
        if p is None:
            continue
        if p[0] == "indent":
            rendered_first.setdefault(rec.acc_empty, set()).add(p[1])
        else:
            # no indent part: the applicable indent is empty, any measured indent of width 0 agrees
            rendered_first.setdefault(rec.acc_empty, set())
    want0 = {True: {m.II}, False: {m.SI}}
    r1.check(rendered_first.get(True, set()) <= {m.II} and rendered_first.get(False, set()) <= {m.SI}, "rendered",
             "rendering selects initial_indent for an empty output vector and subsequent_indent otherwise", str({k: [D(x) for x in v] for k, v in rendered_first.items()}),
             "the rendered indent is not selected by ACC-EMPTY as expected: %s" % {k: [D(x) for x in v] for k, v in rendered_first.items()})

    def table_ok(mt, want):
        # expand a condition-free table to both polarities
        if set(mt.keys()) == {None}:
            mt = {True: mt[None], False: mt[None]}
        return mt.get(True) == want[True] and mt.get(False) == want[False]
    r1.check(table_ok(tabs[0], want0), "first-line-indent",
             "the first line of a paragraph is measured with the indent it is rendered with", str({k: [D(x) for x in v] for k, v in tabs[0].items()}),
             "the first line of every paragraph is measured with %s, but it is rendered with initial_indent only when the output "
             "vector is empty and with subsequent_indent otherwise: in later paragraphs a line can exceed the width by the "
             "difference of the two indents" % {("output empty" if k else "output non-empty" if k is False else "always"): [D(x) for x in v]
                                                for k, v in tabs[0].items()})
    r1.check(table_ok(tabs[1], {True: {m.SI}, False: {m.SI}}), "later-line-indent", "later lines are measured with subsequent_indent",
             str({k: [D(x) for x in v] for k, v in tabs[1].items()}),
             "later lines are measured with %s instead of subsequent_indent" % {k: [D(x) for x in v] for k, v in tabs[1].items()})
    # R3: break_words limit
    r3 = Rule(rep, "C02.R3", SLOW, site=body.span)
    bw = [b for b, t, c in body.calls() if c.name == "crate::core::break_words"]
    if len(bw) != 1:
        raise AnchorMissing("slow path: expected one call to break_words")
    lim = prog.simp(s.call_args(bw[0])[1], body)
    e1 = wl_s[1][1]
    r3.check(lim == e1, "limit", "words are broken to element 1 of the same width list", D(lim),
             "break_words is given the limit %s, which is not the later-line width %s handed to the line breaker" % (D(lim), D(e1)),
             site=site_of_block(body, bw[0]))
    facts_bw = facts_at(prog, body, bw[0])
    r3.check(any(pol and a == ("b", ("field", m.OPT, "break_words")) for a, pol in facts_bw), "bw-flag",
             "break_words runs only when options.break_words is set", "dominating guard", "break_words is not guarded by options.break_words",
             site=site_of_block(body, bw[0]))
    # ... and under no further condition: a word wider than the line must always be broken when the flag is set
    extra_bw = [(a, pol) for a, pol in facts_bw if not (pol and a == ("b", ("field", m.OPT, "break_words")))]
    r3.check(not extra_bw, "bw-only-flag", "break_words runs whenever options.break_words is set", "no other dominating condition",
             "break_words additionally depends on %s: with break_words set, over-long words stay unbroken when that condition fails"
             % [(D(a[1]) if a[0] == "b" else a[0], pol) for a, pol in extra_bw][:3], site=site_of_block(body, bw[0]))
    # R4: sentinel
    r4 = Rule(rep, "C02.R4", SLOW, site=body.span)
    ins = [b for b, t, c in body.calls() if c.name == "Vec::insert" and b not in m.lm.blocks]
    r4.check(len(ins) == 1, "sentinel-present", "a zero-width sentinel word is inserted before the words", "%d insert(s)" % len(ins),
             "expected exactly one sentinel insert before wrapping, found %d: with break_words the first piece (broken to the "
             "later-line width) would be forced onto a narrower first line" % len(ins))
    for ib in ins:
        f = facts_at(prog, body, ib)
        bwf = any(pol and a == ("b", ("field", m.OPT, "break_words")) for a, pol in f)
        ne = any(empty_fact(x, m.II) is False for x in f)
        args = [prog.simp(a, body) for a in s.call_args(ib)]
        from ..idioms import vec_empty_fact
        extra = [(a, pol) for a, pol in f if not (pol and a == ("b", ("field", m.OPT, "break_words")))
                 and empty_fact((a, pol), m.II) is None and vec_empty_fact((a, pol), m.acc_entry) is None
                 and vec_empty_fact((a, pol), ("param", 3, body.arg_names.get(3, "_3"))) is None]
        r4.check(not extra, "sentinel-only-guards", "the sentinel depends on nothing but break_words, the initial indent and the output being empty",
                 "no other dominating condition", "the sentinel insert additionally depends on %s: when that condition fails a first "
                 "word wider than the first line is not moved to the next line" % [(D(a[1]) if a[0] == "b" else a[0], pol) for a, pol in extra][:3],
                 site=site_of_block(body, ib))
        r4.check(bwf and ne and args[1] == ("int", 0), "sentinel-guard", "the sentinel is inserted at position 0 under break_words && !initial_indent.is_empty()",
                 "dominating guards", "the sentinel insert is not guarded by break_words and a non-empty initial indent (guards: break_words=%s, "
                 "!EMPTY(initial_indent)=%s, position %s)" % (bwf, ne, D(args[1])), site=site_of_block(body, ib))


def run(prog, rep):
    from . import optconv
    optconv.check(prog, rep, 'C02')
    lemmas.load_all()
    guarded(rep, "C02.R1", SLOW, lambda: _check(prog, rep))
    # no fragment boundary inside an escape sequence (same rule as C05.R5): a piece holding an incomplete sequence is
    # measured wrongly, so a line can be wider than the width although every fragment seemed to fit
    from .C05 import _escape_aware
    guarded(rep, "C02.R6", "crate", lambda: _escape_aware(
        prog, rep, rule="C02.R6", consequence="a line assembled from such pieces can be wider than the configured width"))
    # C06.R2: the emitted lines are exactly the runs the break rule decided; C01.R1: a line's text is its fragments
    # C10: every width in the pipeline is display_width, the measure the property is stated in
    need = ["C04.WRAPPATH", "C10", "DISPATCH", "C07.R1", "C06.R2", "C01.R1", "C12.R5", "C12.R6", "C12.R7", "C12.R8", "C12.R3", "C12.R4", "C12.R9", "C11.R3", "C11.R1", "C11.R8", "C07.R4"]
    from .common import has_feature
    if has_feature(prog, "unicode-linebreak"):
        need += ["C11.R2", "C11.R5", "C11.R6"]
    for l in need:
        st = lemmas.status(prog, l)
        if st == "ok":
            rep.ok("C02.R5", "crate", "lemma %s holds in this run" % l, "evaluated: ok", nontrivial=False)
        else:
            rep.violation("C02.R5", "crate", "lemma:%s" % l, "crate", "lemma %s is %s in this run" % (l, st))


def _lemma(prog):
    from ..engine import Report
    rep = Report("C02")
    rep.set_config(prog.config)
    guarded(rep, "C02.R1", SLOW, lambda: _check(prog, rep))
    return not rep.violations


lemmas.register("C02", _lemma)

"""C14 - filling is idempotent (corollary: evaluates the rules at its anchors)."""
from .. import lemmas
from .common import configs_for
from .util import guarded
from . import C01, C05, C09

TITLE = "Filling is idempotent"
TECHNIQUE = "corollary check: the structural rules at C14's anchors (slice excludes trailing whitespace, fitting lines unchanged, per-paragraph re-wrapping and join) are evaluated; the two-run relation is derived on paper"
DESIGN_REF = "DESIGN.md 6/C14"
EXPLANATION = (
    "D: the rules anchored where C14's mechanisms live are evaluated on the current tree: C01.R1-R3 (the last word's "
    "whitespace is excluded from every slice, so no output line ends in a space), C05.R1-R3 (a line that fits and carries "
    "no indent is returned as is, trimmed exactly like Word::from trims), C09.R1-R3 (each output line is re-wrapped as its own "
    "paragraph and lines are joined with the configured ending). "
    "T: every line of fill(t) has no trailing space, fits (C02, first-fit) and is its own paragraph in the second run, so it "
    "comes back unchanged. U (not applicable to static analysis): the relation between two runs itself - for optimal-fit and "
    "for force-broken Unicode words it is not decided."
    " (R2) same rule as C05.R5; the hyphen splitter and the ASCII-space separator are genuine findings recorded in KNOWN_FINDINGS.txt (a cut escape sequence is re-measured by the second fill)."
)
ASSUMPTIONS = ["A-rustc", "the derivation from C01/C05/C09/C02 clauses to fill(fill(t)) = fill(t) is a paper argument"]
LEVEL_TEXT = (
    "Only necessary structural conditions of idempotence are decided (trailing whitespace never enters a line, fitting lines "
    "pass through unchanged, paragraphs are independent); a mutation that breaks idempotence without touching these clauses is "
    "not detected, and the claim says so."
)
LEVEL_NOTE = "Corollary of C01.R1-R3, C05.R1-R3, C09.R1-R3 evaluated in the same run; the two-run relation is not mechanised."


def configs(tier):
    return configs_for(tier)


def run(prog, rep):
    lemmas.load_all()
    guarded(rep, "C01.R1", "crate::wrap::wrap_single_line_slow_path", lambda: C01._r123(prog, rep))
    guarded(rep, "C01.R4", "crate::wrap::wrap_single_line", lambda: C01._r4(prog, rep))
    guarded(rep, "C05.R1", C05.WSL, lambda: C05._wsl(prog, rep))
    guarded(rep, "C05.R1", C05.FILL, lambda: C05._fill(prog, rep))
    guarded(rep, "C09.R1", "crate", lambda: C09._use_set(prog, rep))
    guarded(rep, "C09.R2", C09.WSL, lambda: C09._every_path_pushes(prog, rep))
    guarded(rep, "C09.R3", C09.FSP, lambda: C09._join(prog, rep))
    # no fragment boundary inside an escape sequence (same rule as C05.R5): the second fill sees the pieces of a cut
    # sequence on different lines, measures them differently and breaks elsewhere
    guarded(rep, "C14.R2", "crate", lambda: C05._escape_aware(
        prog, rep, rule="C14.R2", consequence="filling the filled text again re-measures the cut pieces and moves the breaks"))
    for l in ("C02", "C11.R3", "C10", "C12.R3", "C12.R7"):
        st = lemmas.status(prog, l)
        if st == "failed":
            rep.violation("C14.R0", "crate", "lemma:" + l, "crate", "lemma %s fails in this run" % l)
        else:
            rep.ok("C14.R0", "crate", "lemma %s" % l, "status %s" % st, nontrivial=False)

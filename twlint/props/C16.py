"""C16 - refill equals filling the original paragraph at the new width."""
from ..sym import sym_of
from ..engine import AnchorMissing
from ..paths import PathView, fn_paths, contradictory
from ..describe import describe
from .. import lemmas
from .common import configs_for
from .util import Rule, guarded, site_of_block
from . import models

TITLE = "refill equals filling the original paragraph at the new width"
TECHNIQUE = "field-correspondence and provenance rules on refill's data flow + append trace of the result"
DESIGN_REF = "DESIGN.md 4.6, 4.5, 6/C16"
EXPLANATION = (
    "D: (R1) FIELD-CORR: the options handed to fill are the caller's new options with initial_indent and subsequent_indent "
    "replaced by the same-named fields of unfill's detected options, and nothing else replaced. (R2) PROV: fill receives "
    "unfill's text with the detected line ending stripped once from its end (strip_suffix with the detected options' "
    "line_ending.as_str()), or the text itself when that fails. (R3) TRACE: the result is fill(..) followed by "
    "push_str(e) iff the strip succeeded, where e is the NEW options' line_ending.as_str(), read before the options are moved. "
    "T: together with C15 (unfill inverts fill) refill(fill(t,o1),o2) = fill(t, o2 with o1's indents). "
    "U (not applicable statically): equality with fill(t, o2) for all paragraphs is the composition of two runs."
    " (R4) imported lemma C15 (all unfill rules): refill re-fills what unfill recovered."
)
ASSUMPTIONS = ["A-rustc", "A-std (strip_suffix)", "C15 (paper) for the round trip"]
LEVEL_TEXT = (
    "Decides the data flow of refill exactly (which fields are copied, what text reaches fill, which line ending is re-appended "
    "and when); the equality with fill at the new width follows from C15's round trip, which is a relation between runs and is "
    "not decided."
)
LEVEL_NOTE = "Trusted: rustc MIR; unfill's inverse property (C15, U-clause)."

KEY = "crate::refill::refill"


def configs(tier):
    return configs_for(tier)


def _check(prog, rep):
    body = prog.need_body(KEY)
    s = sym_of(body)
    D = lambda t: describe(t, body)[:160]
    FT = ("param", 1, body.arg_names.get(1, "_1"))
    NEW = ("call", "Into::into", (("param", 2, body.arg_names.get(2, "_2")),))
    UF = ("call", "crate::refill::unfill", (FT,))
    TEXT, OLD = ("field", UF, "0"), ("field", UF, "1")
    fb = [b for b, t, c in body.calls() if c.name == "crate::fill::fill"]
    if not fb:
        raise AnchorMissing("refill: no call to fill")
    r1 = Rule(rep, "C16.R1", KEY, site=site_of_block(body, fb[0]))
    r2 = Rule(rep, "C16.R2", KEY, site=site_of_block(body, fb[0]))
    r3 = Rule(rep, "C16.R3", KEY, site=body.span)
    e_old = ("call", "crate::line_ending::LineEnding::as_str", (("field", OLD, "line_ending"),))
    e_new = ("call", "crate::line_ending::LineEnding::as_str", (("field", NEW, "line_ending"),))
    strip = ("call", "str::strip_suffix", (TEXT, e_old))
    wantt = ("call", "Option::unwrap_or", (strip, TEXT))
    payload = prog.simp(("field", ("as", strip, "Some"), "0"), body)
    want_opts = {"initial_indent": ("field", OLD, "initial_indent"), "subsequent_indent": ("field", OLD, "subsequent_indent")}
    seen = set()
    # path by path: one call to fill, with the stripped (or unchanged) text and the new options carrying the detected
    # indents; the new ending is appended exactly when the old one was stripped
    for path in fn_paths(body):
        pv = PathView(prog, body, path)
        facts = pv.facts()
        if contradictory(facts):
            continue
        calls = [b for b in path if b in fb]
        site = site_of_block(body, calls[0]) if calls else body.span
        if len(calls) != 1:
            r1.check(False, "one-fill", "", "", "a path through refill calls fill %d times; expected exactly once" % len(calls), site=site)
            continue
        args = pv.call_args(calls[0])
        st = None
        for a, pol in facts:
            if a[0] == "b" and a[1] == ("call", "Option::is_some", (strip,)):
                st = pol
            if a[0] == "b" and a[1] == ("call", "Option::is_none", (strip,)):
                st = not pol
            if a[0] == "b" and a[1] == ("call", "str::ends_with", (TEXT, e_old)):
                st = pol          # strip_suffix(..) is Some exactly when the text ends with the old ending
            if a[0] == "variant" and a[1] == strip and pol:
                st = (a[2] == "Some")
        # options: nested updates over NEW
        o = args[1]
        ups = {}
        while o[0] == "update":
            pth = o[2]
            if len(pth) == 1 and isinstance(pth[0], tuple) and pth[0][0] == "f":
                ups[pth[0][2]] = o[3]
            else:
                ups[str(pth)] = o[3]
            o = o[1]
        r1.check(o == NEW, "base-options", "fill receives the caller's new options", D(o),
                 "fill's options are based on %s, not on the new options" % D(o), site=site)
        r1.check(ups == want_opts, "indents", "exactly the two indents are replaced by the detected ones (same-named fields)",
                 str({k: D(v) for k, v in ups.items()}),
                 "the options given to fill replace %s; expected initial_indent := detected.initial_indent and subsequent_indent := "
                 "detected.subsequent_indent only" % {k: D(v) for k, v in ups.items()}, site=site)
        okt = args[0] == wantt or (st is True and args[0] == payload) or (st is False and args[0] == TEXT)
        r2.check(okt, "text", "fill receives the unfilled text with the detected ending stripped (or unchanged)", D(args[0]),
                 "fill receives %s; expected text.strip_suffix(detected.line_ending.as_str()).unwrap_or(&text)" % D(args[0]), site=site)
        res = models.returned_string_root(prog, body) if _single_root(prog, body) else None
        evs = [(n, a[1]) for (b_, n, a, _r) in pv.events(_result_roots(prog, body)) if path.index(b_) > path.index(calls[0])]
        ret0 = pv.value_before_term((0, ()), path[-1])
        if ret0[0] == "call" and ret0[1] == "Add::add" and len(ret0[2]) == 2 and ret0[2][0][0] == "call" \
                and ret0[2][0][1] == "crate::fill::fill" and not evs:
            evs = [("String::push_str", ret0[2][1])]       # `fill(..) + ending` is fill(..) followed by push_str(ending)
        if st is None:
            r3.check(False, "branch", "", "", "refill does not branch on whether the detected ending was stripped", site=site)
            continue
        seen.add(st)
        exp = [("String::push_str", e_new)] if st else []
        r3.check(evs == exp, "tail:%s" % st, "the NEW line ending is appended iff an ending was stripped", str([(n, D(a)) for n, a in exp]),
                 "when the strip %s the result receives %s; expected %s" % ("succeeded" if st else "failed",
                                                                           [(n, D(a)) for n, a in evs], [(n, D(a)) for n, a in exp]), site=site)
        # what is returned is the result of that call (plus the appended ending)
        ret = pv.value_before_term((0, ()), path[-1])
        if ret[0] == "call" and ret[1] == "Add::add" and len(ret[2]) == 2:
            ret = ret[2][0]
        isfill = lambda v: v[0] == "call" and v[1] == "crate::fill::fill"
        okret = isfill(ret)
        if not okret and ret[0] in ("mut", "phi"):
            pk = ret[3] if ret[0] == "mut" else ret[2]
            if isinstance(pk, tuple) and pk and pk[0] != "opaque":
                s_ = sym_of(body)
                okret = isfill(prog.simp(pv.resolve(s_.val(pk, calls[0], "after")), body))
        r3.check(okret, "result-is-fill", "the result is the string returned by fill", D(ret)[:80],
                 "refill returns %s, which is not the string produced by fill" % D(ret)[:120], site=site)
    r3.check(seen == {True, False}, "cases", "both cases exist", str(seen), "refill lacks one of the stripped / not stripped cases", nontrivial=False)


def _result_roots(prog, body):
    """Places holding the string that is returned (one per return path shape)."""
    s = sym_of(body)
    roots = set()
    work = [s.val((0, ()), r, "term") for r in body.cfg.returns]
    seen = set()
    while work:
        v = work.pop()
        if v in seen:
            continue
        seen.add(v)
        if v[0] == "mut":
            roots.add(v[3])
        elif v[0] == "phi":
            roots.add(v[2])
            work.extend(s.phi_inputs(v).values())
    # the local a fill(..) result is stored in before being moved to _0
    for b, t, c in body.calls():
        if c.name == "crate::fill::fill":
            roots.add((t["dest"]["l"], ()))
    roots.add((0, ()))
    return sorted(roots)


def _single_root(prog, body):
    try:
        models.returned_string_root(prog, body)
        return True
    except AnchorMissing:
        return False


def run(prog, rep):
    from . import optconv
    optconv.check(prog, rep, 'C16')
    guarded(rep, "C16.R1", KEY, lambda: _check(prog, rep))
    # refill = fill(unfill(..)): it recovers the original paragraph and indents only if unfill does (C15)
    from .. import lemmas
    lemmas.load_all()
    st = lemmas.status(prog, "C15")
    if st == "ok":
        rep.ok("C16.R4", "crate", "lemma C15 holds in this run", "evaluated: ok", nontrivial=False)
    else:
        rep.violation("C16.R4", "crate", "lemma:C15", "crate", "lemma C15 (unfill inverts fill) is %s in this run: refill would "
                      "re-fill a different paragraph or with different indents" % st)

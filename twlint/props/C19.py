"""C19 - indent prefixes every line and preserves line structure."""
from ..sym import sym_of
from ..engine import AnchorMissing, loop_models, iter_chain
from ..poly import poly, fact_nf, GT0, GE0, EQ0, NE0
from ..paths import loop_system, PathView
from ..describe import describe
from ..idioms import FirstIter, blank_fact
from .common import configs_for
from .util import Rule, guarded, site_of_block, check_visits_all
from . import models

TITLE = "indent prefixes every line and preserves line structure"
TECHNIQUE = "append-trace grammar of the result string over all paths of the MIR loop"
DESIGN_REF = "DESIGN.md 4.5, 6/C19"
EXPLANATION = (
    "D: (R1) the set of append traces on indent's result string, over every path of the loop over "
    "s.split_terminator('\\n').enumerate() and of the code after it, equals the grammar: per item (idx, line): "
    "[push('\\n') iff idx > 0], push_str(BLANK(line) ? prefix.trim_end() : prefix), push_str(line); after the loop "
    "[push('\\n') iff s.ends_with('\\n')]; no other mutation of the result; the result starts empty and is returned. "
    "(R2) both prefix variants derive from the prefix parameter (trim_end only) and the line is pushed unmodified. "
    "T: same lines, same newline positions, prefix on every line, indent(s, \"\") = s (A-std: split_terminator yields the "
    "lines without their terminators, dropping only a final empty piece). U: none."
)
ASSUMPTIONS = ["A-rustc", "A-std: str::split_terminator, str::trim_end, String::push/push_str semantics"]
LEVEL_TEXT = (
    "Decides that on every path the result string receives exactly the sequence of pieces the property describes (and "
    "nothing else), for all inputs; the behavioural statement follows from std's contract for split_terminator."
)
LEVEL_NOTE = "Trusted: rustc MIR, std string primitives. BLANK(line) is recognised through the idiom family of twlint/idioms.py."

KEY = "crate::indentation::indent"


def configs(tier):
    return configs_for(tier)


def _check(prog, rep):
    body = prog.need_body(KEY)
    s = sym_of(body)
    r = Rule(rep, "C19.R1", KEY, site=body.span)
    r2 = Rule(rep, "C19.R2", KEY, site=body.span)
    D = lambda t: describe(t, body)[:140]
    S = ("param", 1, body.arg_names.get(1, "_1"))
    P = ("param", 2, body.arg_names.get(2, "_2"))
    res = models.returned_string_root(prog, body)
    lms = [lm for lm in loop_models(prog, body) if lm.kind == "iter"]
    main = fi = None
    for lm in lms:
        f = FirstIter(prog, body, lm)
        inner = f.source
        if inner and inner[0] == "call" and inner[1] == "str::split_terminator" and inner[2][0] == S and inner[2][1] == ("char", 10):
            main, fi = lm, f
    if main is None:
        raise AnchorMissing("indent: no loop over s.split_terminator('\\n') (found %s)" % [D(l.source) for l in lms if l.source])
    line = fi.element
    NL = ("char", 10)
    check_visits_all(r, body, main, "indent's loop over the lines")
    trans = loop_system(prog, body, main, [], [res])
    cases = set()
    for tr in trans:
        if tr.kind != "back":
            continue
        evs = [(n, a[1]) for (_b, n, a, _r) in tr.events]
        site = site_of_block(body, tr.events[0][0]) if tr.events else body.span
        nfs = [fact_nf(f) for f in tr.facts if f[0][0] == "cmp"]
        first = fi.verdict(tr.facts)
        blank = None
        for f in tr.facts:
            b = blank_fact(prog, body, f, line)
            if b is not None:
                blank = b
        if first is None or blank is None:
            r.check(False, "branching", "", "", "a path through the loop does not decide idx > 0 and BLANK(line) "
                    "(conditions: %s)" % [(k, p.show(D)) for k, p in nfs], site=site)
            continue
        cases.add((first, blank))
        exp = []
        if not first:
            exp.append(("String::push", NL))
        exp.append(("String::push_str", ("call", "str::trim_end", (P,)) if blank else P))
        exp.append(("String::push_str", line))
        r.check(evs == exp, "trace:%s,%s" % ("first" if first else "later", "blank" if blank else "nonblank"),
                "trace for a %s %s line is %s" % ("first" if first else "later", "blank" if blank else "non-blank",
                                                  [(n.split("::")[-1], D(a)) for n, a in exp]),
                "append trace matches the grammar",
                "for a %s, %s line the result receives %s; expected %s" % (
                    "first" if first else "later", "whitespace-only" if blank else "non-blank",
                    [(n.split("::")[-1], D(a)) for n, a in evs], [(n.split("::")[-1], D(a)) for n, a in exp]), site=site)
    r.check(cases == {(True, True), (True, False), (False, True), (False, False)}, "all-cases",
            "all four (first/later x blank/non-blank) cases exist", str(sorted(cases)),
            "the loop does not distinguish first/later and blank/non-blank lines: cases %s" % sorted(cases), nontrivial=False)
    # after the loop
    exits = [b for a, b in main.lp["exits"]]
    seen = {}
    for e in exits:
        for path in _paths_to_return(body, e):
            pv = PathView(prog, body, path)
            evs = [(n, a[1]) for (_b, n, a, _r) in pv.events([res])]
            ew = None
            for atom, pol in pv.facts():
                if atom[0] == "b" and atom[1][0] == "call" and atom[1][1] == "str::ends_with" and atom[1][2] == (S, NL):
                    ew = pol
            if ew is None:
                r.check(False, "tail-branch", "", "", "the code after the loop does not branch on s.ends_with('\\n')")
                continue
            exp = [("String::push", NL)] if ew else []
            seen[ew] = True
            r.check(evs == exp, "tail:%s" % ew, "after the loop: %s when s %s with a newline" % (
                "push('\\n')" if ew else "nothing", "ends" if ew else "does not end"), "trace matches",
                "after the loop, when s %s with '\\n', the result receives %s; expected %s" % (
                    "ends" if ew else "does not end", [(n.split("::")[-1], D(a)) for n, a in evs],
                    [(n.split("::")[-1], D(a)) for n, a in exp]))
    r.check(seen.get(True) and seen.get(False), "tail-cases", "both final-newline cases exist", str(seen),
            "the final newline is not conditional on s.ends_with('\\n')", nontrivial=False)
    # nothing before the loop
    pre = [(b, n) for b, n in models.mutators_of(prog, body, res)
           if b not in main.blocks and any(body.cfg.dominates(b, main.header) for _ in [0])
           and n not in ("String::with_capacity", "String::new")]
    pre = [x for x in pre if body.cfg.dominates(x[0], main.header)]
    r.check(not pre, "prelude", "the result is empty when the loop starts", "no mutation before the loop",
            "the result string is modified before the loop by %s" % [n for _, n in pre])
    init = models.acc_init(prog, body, res)
    r2.check(init in ("String::with_capacity", "String::new"), "init", "the result starts as an empty String", str(init),
             "the result is created by %s, not as an empty String" % init, nontrivial=False)


def _paths_to_return(body, start):
    out = []
    st = [(start, [start])]
    while st:
        x, p = st.pop()
        if x in body.cfg.returns:
            out.append(p)
            continue
        for n in body.cfg.succ[x]:
            if n not in p:
                st.append((n, p + [n]))
    return out


def run(prog, rep):
    guarded(rep, "C19.R1", KEY, lambda: _check(prog, rep))

"""Structural models of the anchored functions, shared by several properties.

Every model finds its roles from structure (types, resolved callees, dataflow),
never from variable names or line numbers, and raises AnchorMissing with a
reason when the code no longer has the recognised shape."""
from ..engine import AnchorMissing, loop_models, iter_chain
from ..paths import loop_system, loop_state_vars, entry_value, PathView, fn_paths
from ..sym import sym_of, subterms
from ..poly import poly, fact_nf, cmp_nf, Poly
from ..describe import describe
from ..engines.schemas import range_parts

_CACHE = {}


def cached(fn):
    def wrap(prog, *a):
        key = (id(prog), fn.__name__) + a
        if key not in _CACHE:
            try:
                _CACHE[key] = ("ok", fn(prog, *a))
            except AnchorMissing as e:
                _CACHE[key] = ("missing", e)
        st, v = _CACHE[key]
        if st == "missing":
            raise v
        return v
    wrap.__name__ = fn.__name__
    return wrap


class Model(dict):
    __getattr__ = dict.get


def returned_vec_root(prog, body):
    """Root place of the Vec moved into _0 at every return."""
    s = sym_of(body)
    roots = set()
    for r in body.cfg.returns:
        v = s.val((0, ()), r, "term")
        if v[0] == "mut":
            roots.add(v[3])
        elif v[0] == "phi":
            roots.add(v[2])
        elif v[0] == "adt" and v[2] in ("Ok", "Some") and v[3] and v[3][0][1][0] in ("mut", "phi"):
            inner = v[3][0][1]
            roots.add(inner[3] if inner[0] == "mut" else inner[2])
        else:
            raise AnchorMissing("%s: returned value is not a locally built Vec (%s)" % (body.key, describe(v, body)))
    if len(roots) != 1:
        raise AnchorMissing("%s: several returned vectors" % body.key)
    return next(iter(roots))


def mutators_of(prog, body, root):
    """[(block, callee name)] of every call taking `root` by &mut."""
    s = sym_of(body)
    out = []
    from ..sym import overlaps
    for b, roots in s.mut_calls().items():
        for r in roots:
            if r[0] != "opaque" and overlaps(r, root):
                out.append((b, body.callee(b).name))
    return out


@cached
def first_fit(prog):
    key = "crate::wrap_algorithms::wrap_first_fit"
    body = prog.need_body(key)
    s = sym_of(body)
    m = Model(body=body, key=key)
    lms = [lm for lm in loop_models(prog, body) if lm.kind == "iter"]
    main = None
    for lm in lms:
        chain, root, _ = iter_chain(lm.source) if lm.source else ([], None, [])
        names = [n for n in chain if n not in ("IntoIterator::into_iter",)]
        if names == ["Iterator::enumerate", "[]::iter"] and root[0] == "param":
            main = lm
            m.F = root
        elif names == ["[]::iter"] and root[0] == "param" and main is None:
            main = lm          # the index is a manually maintained counter (checked below)
            m.F = root
        elif main is None and lm.source is not None and lm.source[0] == "adt" and lm.source[2] == "Range":
            # `for idx in 0..fragments.len()`: the item is the index, the fragment is fragments[idx]
            f = dict(lm.source[3])
            en = f.get("end")
            if f.get("start") == ("int", 0) and en is not None and en[0] == "call" and en[1] in ("[]::len", "Vec::len") \
                    and en[2][0][0] == "param":
                main = lm
                m.F = en[2][0]
                m.range_index = True
    if main is None:
        raise AnchorMissing("%s: no loop over <param>.iter().enumerate()" % key)
    m.lm = main
    from ..idioms import FirstIter
    fi = FirstIter(prog, body, main)
    counter_pk = None
    if getattr(m, "range_index", False):
        m.idx = main.item
        m.frag = ("index", m.F, m.idx)
    elif fi.idx is not None:
        m.idx = main.item_proj(0)
        m.frag = main.item_proj(1)
    else:
        # position of the element = number of completed iterations: a usize variable that starts at 0 and is
        # incremented by one on every path round the loop
        if len(fi.counters) != 1:
            raise AnchorMissing("%s: the fragment loop has no enumerate() index and no unique position counter" % key)
        m.idx = next(iter(fi.counters))
        counter_pk = m.idx[2]
        m.frag = main.item
    params = [("param", i + 1, body.arg_names.get(i + 1, "_%d" % (i + 1))) for i in range(body.arg_count)]
    others = [p for p in params if p != m.F]
    if len(others) != 1:
        raise AnchorMissing("%s: expected exactly one other parameter (line widths)" % key)
    m.LW = others[0]
    m.acc = returned_vec_root(prog, body)
    sv = loop_state_vars(body, main)
    us = [pk for pk, (n, ty) in sv.items() if ty == "usize" and pk != counter_pk]
    fs = [pk for pk, (n, ty) in sv.items() if ty == "f64"]
    if len(us) != 1 or len(fs) != 1:
        raise AnchorMissing("%s: expected one usize and one f64 loop-carried variable, found %s" % (
            key, sorted(n for n, _ in sv.values())))
    m.start_pk, m.width_pk = us[0], fs[0]
    m.start = s.val_entry(m.start_pk, main.header)
    m.width = s.val_entry(m.width_pk, main.header)
    m.acc_state = s.val_entry(m.acc, main.header)
    m.start0 = entry_value(prog, body, main, m.start_pk)
    m.width0 = entry_value(prog, body, main, m.width_pk)
    m.trans = loop_system(prog, body, main, [m.start_pk, m.width_pk], [m.acc])
    m.W = ("call", "Fragment::width", (m.frag,))
    m.WS = ("call", "Fragment::whitespace_width", (m.frag,))
    m.P = ("call", "Fragment::penalty_width", (m.frag,))
    return m


@cached
def optimal_fit(prog):
    key = "crate::wrap_algorithms::optimal_fit::wrap_optimal_fit"
    body = prog.need_body(key)
    s = sym_of(body)
    m = Model(body=body, key=key)
    # parameters by type
    for i in range(1, body.arg_count + 1):
        ty = body.local_ty(i)
        p = ("param", i, body.arg_names.get(i, "_%d" % i))
        if ty.startswith("&") and "[T]" in ty:
            m.F = p
        elif "[f64]" in ty:
            m.LW = p
        elif "Penalties" in ty:
            m.PEN = p
    if not (m.F and m.LW and m.PEN):
        raise AnchorMissing("%s: parameters (fragments, line_widths, penalties) not recognised" % key)
    # the smawk call
    smawk_b = None
    for b, t, cal in body.calls():
        if cal.name == "smawk::online_column_minima":
            smawk_b = b
    if smawk_b is None:
        raise AnchorMissing("%s: no call to smawk::online_column_minima" % key)
    m.smawk_block = smawk_b
    m.smawk_call = prog.simp(s.call_term(smawk_b), body)
    m.minima_pk = s.resolve_pk((body.blocks[smawk_b]["term"]["dest"]["l"], ()))
    # returned Ok(vec)
    roots = set()
    m.ok_returns = []
    m.err_sites = []
    for b in sorted(body.cfg.reach):
        for i, st in enumerate(body.blocks[b]["stmts"]):
            if st["k"] == "assign" and st["place"]["l"] == 0 and not st["place"]["p"]:
                v = s.rvalue(st["rv"], b, i)
                if v[0] == "adt" and v[2] == "Ok":
                    inner = v[3][0][1]
                    if inner[0] in ("mut", "phi"):
                        roots.add(inner[3] if inner[0] == "mut" else inner[2])
                        m.ok_returns.append(b)
                    else:
                        raise AnchorMissing("%s: Ok(..) does not return a locally built Vec" % key)
                elif v[0] == "adt" and v[2] == "Err":
                    m.err_sites.append(b)
    if len(roots) != 1:
        raise AnchorMissing("%s: expected exactly one returned Vec" % key)
    m.acc = next(iter(roots))
    lms = loop_models(prog, body)
    # back-trace loop: the non-iterator loop that pushes onto acc
    bt = None
    pre = None
    for lm in lms:
        pushes = [b for b, n in mutators_of(prog, body, m.acc) if n == "Vec::push" and b in lm.blocks]
        if pushes and lm.kind != "iter":
            bt = lm
        if lm.kind == "iter" and lm.source in (m.F, ("call", "[]::iter", (m.F,))):
            pre = lm          # `for f in fragments` or an explicit `fragments.iter()`
    if bt is None:
        raise AnchorMissing("%s: no non-iterator loop pushing onto the returned Vec (back-trace)" % key)
    m.bt = bt
    m.prefix_loop = pre
    sv = loop_state_vars(body, bt)
    us = [pk for pk, (n, ty) in sv.items() if ty == "usize"]
    if len(us) != 1:
        raise AnchorMissing("%s: back-trace loop should carry exactly one usize variable" % key)
    m.pos_pk = us[0]
    m.pos = s.val_entry(m.pos_pk, bt.header)
    m.pos0 = entry_value(prog, body, bt, m.pos_pk)
    m.bt_trans = loop_system(prog, body, bt, [m.pos_pk], [m.acc])
    m.minima = prog.simp(s.val(m.minima_pk, bt.header, 0), body)
    return m


def acc_init(prog, body, root, lm=None):
    """Name of the call that creates the accumulator (its value on loop entry / first use)."""
    s = sym_of(body)
    for b, t, cal in body.calls():
        dest = s.resolve_pk((t["dest"]["l"], ()))
        if dest == root and not t["dest"]["p"]:
            return cal.name
    # `let v = Vec::new()` goes through a temp: look at direct assignment
    for b in sorted(body.cfg.reach):
        for i, st in enumerate(body.blocks[b]["stmts"]):
            if st["k"] == "assign" and s.lhs_pk(b, i) == root:
                v = prog.simp(s.rvalue(st["rv"], b, i), body)
                if v[0] in ("call", "callm"):
                    return v[1]
    return None


@cached
def dispatch(prog):
    """WrapAlgorithm::wrap: which callee each variant reaches, with arguments."""
    key = "crate::wrap_algorithms::WrapAlgorithm::wrap"
    body = prog.need_body(key)
    s = sym_of(body)
    m = Model(body=body, key=key)
    if not body.cfg.returns:
        raise AnchorMissing(key + ": no return")
    r = body.cfg.returns[0]
    ret = s.val((0, ()), r, "term")
    arms = {}
    if ret[0] == "phi":
        for p, v in s.phi_inputs(ret).items():
            # which variant guards this predecessor?
            from ..pred import facts_at
            var = None
            for a, pol in facts_at(prog, body, p):
                if pol and a[0] == "variant":
                    var = a[2]
            val = prog.simp(v, body)
            if var in arms and arms[var] != val:
                prev = arms[var][1] if arms[var][0] == "one-of" else (arms[var],)
                val = ("one-of", tuple(prev) + (val,))
            arms[var] = val
    else:
        arms[None] = prog.simp(ret, body)
    m.arms = arms
    m.words = ("param", 2, body.arg_names.get(2, "_2"))
    m.widths = ("param", 3, body.arg_names.get(3, "_3"))
    return m


def elementwise_image(prog, term, src):
    """term == collect(<element-wise adapter chain over src>): the per-element value as a term
    over ("elem",), following iter / copied / cloned / map(closure); None if term is anything else."""
    from ..engines.schemas import closure_return_term, subst
    if term[0] != "call" or term[1] != "Iterator::collect" or len(term[2]) != 1:
        return None
    chain = []
    cur = term[2][0]
    for _ in range(8):
        if cur == src:
            break
        if cur[0] == "call" and cur[1] in ("[]::iter", "Vec::iter") and len(cur[2]) == 1 and cur[2][0] == src:
            break
        if cur[0] == "call" and cur[1] in ("Iterator::copied", "Iterator::cloned") and len(cur[2]) == 1:
            cur = cur[2][0]
            continue
        if cur[0] == "call" and cur[1] == "Iterator::map" and len(cur[2]) == 2 and cur[2][1][0] == "closure":
            chain.append(cur[2][1])
            cur = cur[2][0]
            continue
        return None
    else:
        return None
    elem = ("elem",)
    for clo in reversed(chain):
        cb, ret = closure_return_term(prog, clo)
        if cb is None:
            return None
        params = {st for st in subterms(ret) if st[0] == "param" and st[1] == 2}
        elem = prog.simp(subst(ret, {p: elem for p in params}), cb)
    return elem


def pushed_image(prog, body, term, src):
    """term is a Vec that is created empty and filled by one loop over src that pushes one value per item and
    nothing else: the pushed value as a term over ("elem",); None otherwise."""
    from ..engines.schemas import subst
    from ..paths import loop_system
    from .util import early_exits
    if term[0] not in ("mut", "phi"):
        return None
    root = term[3] if term[0] == "mut" else term[2]
    if not isinstance(root, tuple) or root[0] == "opaque":
        return None
    init = acc_init(prog, body, root)
    if init not in ("Vec::new", "Vec::with_capacity"):
        return None
    muts = [(b, n) for b, n in mutators_of(prog, body, root) if n not in ("Vec::new", "Vec::with_capacity")]
    loops = [lm for lm in loop_models(prog, body) if lm.kind == "iter" and any(b in lm.blocks for b, _n in muts)]
    if len(loops) != 1 or any(b not in loops[0].blocks for b, _n in muts):
        return None
    lm = loops[0]
    chain, base, _ = iter_chain(lm.source) if lm.source else ([], None, [])
    names = [n for n in chain if n not in ("IntoIterator::into_iter", "Iterator::copied", "Iterator::cloned")]
    if base != src or names not in ([], ["[]::iter"], ["Vec::iter"]):
        return None
    if early_exits(body, lm):
        return None
    val = None
    for tr in loop_system(prog, body, lm, [], [root]):
        if tr.kind != "back":
            continue
        evs = [(n, a[1]) for (_b, n, a, _r) in tr.events]
        if len(evs) != 1 or evs[0][0] != "Vec::push":
            return None
        v = subst(evs[0][1], {lm.item: ("elem",)})
        if val is not None and v != val:
            return None
        val = v
    return val


def f64_image_of(prog, term, src, body=None):
    """term is the element-wise `as f64` image of src (e.g. src.iter().map(|w| *w as f64).collect(), or a Vec filled
    by a loop that pushes `w as f64` for every w of src)"""
    e = elementwise_image(prog, term, src)
    if e is None and body is not None:
        e = pushed_image(prog, body, term, src)
    return e is not None and e[0] == "cast" and e[1] == "IntToFloat" and e[2] == ("elem",)


def returned_string_root(prog, body):
    """Root place of the String moved into _0 (single return)."""
    s = sym_of(body)
    roots = set()
    for r in body.cfg.returns:
        v = s.val((0, ()), r, "term")
        if v[0] == "mut":
            roots.add(v[3])
        elif v[0] == "phi":
            roots.add(v[2])
        else:
            raise AnchorMissing("%s: returned value is not a locally built String (%s)" % (body.key, describe(v, body)[:80]))
    if len(roots) != 1:
        raise AnchorMissing("%s: several returned strings" % body.key)
    return next(iter(roots))


def capture_pks(cbody, types=None):
    """{capture name: place key} for the captures of a closure body."""
    from ..sym import pk_of
    out = {}
    for d in cbody.raw.get("debug", []):
        pl = d.get("place")
        if pl is None or pl["l"] != 1:
            continue
        n = d["name"]
        nn = n[len("_ref__"):] if n.startswith("_ref__") else n
        if types is None or pl["ty"] in types:
            out[nn] = sym_of(cbody).resolve_pk(pk_of(pl))
    return out


class RetPath:
    def __init__(self, path, facts, ret, nxt, events, view):
        self.path, self.facts, self.ret, self.next, self.events, self.view = path, facts, ret, nxt, events, view


def closure_model(prog, cbody, state_types=("usize", "bool")):
    """Per-invocation model of a closure: captured state, loops with their
    transition systems, and every acyclic entry-to-return path with its
    condition, returned value and the captures' values at return."""
    from ..paths import fn_paths, contradictory
    from ..engines.schemas import closure_env
    key = (id(prog), "closure_model", cbody.key, state_types)
    if key in _CACHE:
        return _CACHE[key][1]
    m = Model(body=cbody)
    parent, env = closure_env(prog, cbody)
    m.parent, m.env = parent, env or {}
    m.caps = capture_pks(cbody)
    m.state = {n: pk for n, pk in capture_pks(cbody, state_types).items()}
    roots = list(m.caps.values())
    m.loops = []
    for lm in loop_models(prog, cbody):
        trans = loop_system(prog, cbody, lm, list(m.state.values()), roots)
        m.loops.append((lm, trans))
    m.returns = []
    for path in fn_paths(cbody):
        pv = PathView(prog, cbody, path, keep_headers=True)
        facts = pv.facts()
        if contradictory(facts):
            continue
        ret = pv.value_before_term((0, ()), path[-1])
        nxt = {n: pv.value_before_term(pk, path[-1]) for n, pk in m.state.items()}
        m.returns.append(RetPath(path, facts, ret, nxt, pv.events(roots), pv))
    _CACHE[key] = ("ok", m)
    return m


@cached
def slow_path(prog):
    from ..idioms import empty_fact, vec_empty_fact
    from ..sym import overlaps
    key = "crate::wrap::wrap_single_line_slow_path"
    body = prog.need_body(key)
    s = sym_of(body)
    m = Model(body=body, key=key)
    P = lambda i: ("param", i, body.arg_names.get(i, "_%d" % i))
    m.LINE, m.OPT, m.ACCP = P(1), P(2), P(3)
    m.acc = (3, ("deref",))
    m.II = ("field", m.OPT, "initial_indent")
    m.SI = ("field", m.OPT, "subsequent_indent")
    m.WIDTH = ("field", m.OPT, "width")
    wb = [b for b, t, c in body.calls() if c.name == "crate::wrap_algorithms::WrapAlgorithm::wrap"]
    if len(wb) != 1:
        raise AnchorMissing("%s: expected one call to WrapAlgorithm::wrap (found %d)" % (key, len(wb)))
    m.wrap_block = wb[0]
    m.wrap_call = prog.simp(s.call_term(wb[0]), body)
    lms = [lm for lm in loop_models(prog, body) if lm.kind == "iter" and lm.source == m.wrap_call]
    if len(lms) != 1:
        raise AnchorMissing("%s: no loop over the lines returned by WrapAlgorithm::wrap" % key)
    lm = lms[0]
    m.lm = lm
    m.words = lm.item
    sv = loop_state_vars(body, lm, types=("usize",))
    if len(sv) != 1:
        raise AnchorMissing("%s: expected one usize loop-carried offset, found %s" % (key, sorted(n for n, _ in sv.values())))
    m.idx_pk = next(iter(sv))
    m.idx = s.val_entry(m.idx_pk, lm.header)
    m.idx0 = entry_value(prog, body, lm, m.idx_pk)
    m.acc_hdr = s.val_entry(m.acc, lm.header)
    m.acc_entry = s.val(m.acc, 0, 0)
    # mutations of the output vector outside the reassembly loop (there should be none)
    m.stray_pushes = [(b, n) for b, n in mutators_of(prog, body, m.acc) if b not in lm.blocks]
    # the line under construction: every place mutated in the loop other than acc and the iterator
    roots = set()
    for b, rs in s.mut_calls().items():
        if b in lm.blocks:
            for r in rs:
                if r[0] != "opaque" and not overlaps(r, m.acc) and r != lm.iter_pk:
                    roots.add(r)
    m.result_roots = sorted(roots)
    trans = loop_system(prog, body, lm, [m.idx_pk], [m.acc] + m.result_roots)
    recs = []
    for tr in trans:
        if tr.kind != "back":
            continue
        rec = Model(tr=tr)
        rec.acc_empty = rec.e_init = rec.e_sub = rec.e_pen = None
        rec.last = None
        rec.last_none = False
        for f in tr.facts:
            atom, pol = f
            if atom[0] == "variant" and atom[1][0] == "call" and atom[1][1] == "[]::last" and atom[1][2][0] == m.words:
                if pol and atom[2] == "Some":
                    rec.last = ("field", ("as", atom[1], "Some"), "0")
                if pol and atom[2] == "None":
                    rec.last_none = True
            v = vec_empty_fact(f, m.acc_hdr)
            if v is not None:
                rec.acc_empty = v
            v = empty_fact(f, m.II)
            if v is not None:
                rec.e_init = v
            v = empty_fact(f, m.SI)
            if v is not None:
                rec.e_sub = v
        if rec.last is not None:
            for f in tr.facts:
                v = empty_fact(f, ("field", rec.last, "penalty"))
                if v is not None:
                    rec.e_pen = v
        rec.res_events = [(b, n, a) for (b, n, a, r) in tr.events if r != m.acc]
        rec.pushes = [(b, n, a) for (b, n, a, r) in tr.events if r == m.acc]
        # initial value of the line under construction: value before its first event
        rec.init = None
        if rec.res_events:
            b0 = rec.res_events[0][0]
            root = [r for (b, n, a, r) in tr.events if b == b0][0]
            rec.init = tr.view.value_before_term(root, b0)
        recs.append(rec)
    m.recs = recs
    m.trans = trans
    return m


def entry_paths_to(prog, body, block):
    """Acyclic paths from the entry to `block` (inclusive)."""
    out = []
    st = [(0, [0])]
    while st:
        x, p = st.pop()
        if x == block:
            out.append(p)
            continue
        for n in body.cfg.succ[x]:
            if n not in p:
                st.append((n, p + [n]))
    return out


def variant_arms(prog, key):
    """For a function that matches on `self` and returns a phi: {variant name: simplified returned term}."""
    from ..pred import facts_at
    body = prog.need_body(key)
    s = sym_of(body)
    ret = s.val((0, ()), body.cfg.returns[0], "term")
    arms = {}
    if ret[0] != "phi":
        return body, {None: prog.simp(ret, body)}
    for p, v in s.phi_inputs(ret).items():
        var = None
        for a, pol in facts_at(prog, body, p):
            if pol and a[0] == "variant" and a[1][0] == "param":
                var = a[2]
        val = prog.simp(v, body)
        if var in arms and arms[var] != val:
            # the same variant reaches the return with different values (a match guard, an inner branch)
            prev = arms[var][1] if arms[var][0] == "one-of" else (arms[var],)
            val = ("one-of", tuple(prev) + (val,))
        arms[var] = val
    return body, arms

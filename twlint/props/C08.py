"""C08 - every output line carries the configured indent."""
from ..sym import sym_of, subterms
from ..engine import AnchorMissing
from ..paths import PathView
from ..describe import describe
from ..idioms import empty_fact, vec_empty_fact
from ..pred import facts_at
from .. import lemmas
from .common import configs_for
from .util import Rule, guarded, site_of_block
from . import models

TITLE = "Every output line carries the configured indent"
TECHNIQUE = "provenance / control-dependence rule on every push into the output vector + use-set rule on the indent fields"
DESIGN_REF = "DESIGN.md 4.6, 6/C08"
EXPLANATION = (
    "D: (R1) for every push into the output vector in the paragraph functions, either the pushed value starts with the "
    "applicable indent or the push is control dependent on that indent being empty. (R2) the applicable indent is selected by "
    "whether the output vector is empty (initial_indent) or not (subsequent_indent), tested on the vector as it is before the "
    "push of the same iteration. (R3) the two indent fields are consumed on the wrap/fill path only by display_width, "
    "str::is_empty and to_owned into the line under construction, so what follows the indent depends only on its width and "
    "emptiness. (C01.R2) the indent is the first component of the line. (R4) imported lemmas C06.R2 / C06.R3: the wrap "
    "algorithms return at least one (possibly empty) line for every word list, so an empty paragraph still yields a line "
    "that carries its indent. "
    "T: the first returned line starts with initial_indent and every later line with subsequent_indent, for every paragraph "
    "shape and option combination. U: none."
)
ASSUMPTIONS = ["A-rustc", "A-std (Vec::is_empty, Cow)"]
LEVEL_TEXT = (
    "Decides on every path that reaches a push into wrap's output vector that the pushed line is built from the indent "
    "selected by the emptiness of that vector, or that this indent is known to be empty there; and that no other use of the "
    "indent strings exists on the wrap path."
)
LEVEL_NOTE = "Trusted: rustc MIR; EMPTY / ACC-EMPTY are recognised through the idiom families in twlint/idioms.py."

WSL = "crate::wrap::wrap_single_line"
SLOW = "crate::wrap::wrap_single_line_slow_path"


def configs(tier):
    return configs_for(tier)


def _pushed_prefix(v):
    """('indent', X) if v = Cow::Owned(X.to_owned()); ('none',) if v has no indent part; None if unknown."""
    if v is None:
        return None
    if v[0] == "adt" and v[2] == "Owned":
        inner = v[3][0][1]
        if inner[0] == "call" and inner[1] == "String::from" and inner[2]:
            return ("indent", inner[2][0])
        return None
    if v[0] == "adt" and v[2] == "Borrowed":
        return ("none",)
    return None


def _slow(prog, rep):
    m = models.slow_path(prog)
    body = m.body
    D = lambda t: describe(t, body)[:150]
    r1 = Rule(rep, "C08.R1", SLOW, site=body.span)
    r2 = Rule(rep, "C08.R2", SLOW, site=body.span)
    n = 0
    r1.check(not m.stray_pushes, "only-loop-pushes", "the slow path adds lines only in its reassembly loop", "no push outside the loop",
             "wrap_single_line_slow_path also adds a line outside its reassembly loop (%s): that line does not go through the "
             "indent selection" % [nm for _b, nm in m.stray_pushes], site=site_of_block(body, m.stray_pushes[0][0]) if m.stray_pushes else None)
    for rec in m.recs:
        tr = rec.tr
        if not rec.pushes:
            r1.check(False, "no-push", "", "", "a path through the reassembly loop pushes no line", site=site_of_block(body, tr.path[-2]))
            continue
        n += 1
        b, name, args = rec.pushes[0]
        site = site_of_block(body, b)
        pushed = args[1]
        if rec.init is not None:
            pref = _pushed_prefix(rec.init)
        else:
            pref = _pushed_prefix(pushed)
        app = None
        if rec.acc_empty is True:
            app, e_app = m.II, rec.e_init
        elif rec.acc_empty is False:
            app, e_app = m.SI, rec.e_sub
        what = "a line without words" if rec.last_none else "a line of words"
        if pref is None:
            r1.check(False, "push-shape", "", "", "the value pushed for %s starts as %s: neither an indent nor an empty borrowed string"
                     % (what, D(rec.init if rec.init is not None else pushed)), site=site)
            continue
        if pref[0] == "indent":
            r2.check(app is not None, "selector", "the indent is chosen by the emptiness of the output vector", "ACC-EMPTY decided on this path",
                     "an indented line is pushed on a path that does not test whether the output vector is empty", site=site)
            r1.check(app is not None and pref[1] == app, "applicable-indent",
                     "the line starts with the applicable indent (%s)" % ("initial" if rec.acc_empty else "subsequent"), D(pref[1]),
                     "the line pushed when the output vector is %s starts with %s, expected %s" % (
                         "empty" if rec.acc_empty else "non-empty", D(pref[1]), D(app) if app else "the applicable indent"), site=site)
        else:
            ok = (app is not None and e_app is True) or (rec.e_init is True and rec.e_sub is True)
            r1.check(ok, "unindented-push", "a line without indent part is only pushed when the applicable indent is empty",
                     "EMPTY(applicable indent) on this path",
                     "%s is pushed without indent (%s) on a path where the applicable indent is not known to be empty: the line "
                     "comes out unprefixed when an indent is configured" % (what, D(pushed)), site=site)
    r1.check(n >= 5, "paths", "all pushing paths analysed", str(n), "only %d pushing paths found" % n, nontrivial=False)


def _fast(prog, rep):
    body = prog.need_body(WSL)
    s = sym_of(body)
    r1 = Rule(rep, "C08.R1", WSL, site=body.span)
    r2 = Rule(rep, "C08.R2", WSL, site=body.span)
    D = lambda t: describe(t, body)[:150]
    OPT = ("param", 2, body.arg_names.get(2, "_2"))
    II, SI = ("field", OPT, "initial_indent"), ("field", OPT, "subsequent_indent")
    acc0 = ("param", 3, body.arg_names.get(3, "_3"))
    pushes = [b for b, t, c in body.calls() if c.name == "Vec::push"]
    for pb in pushes:
        for path in models.entry_paths_to(prog, body, pb):
            pv = PathView(prog, body, path)
            facts = pv.facts()
            ae = None
            emp = {}
            for f in facts:
                v = vec_empty_fact(f, acc0)
                if v is not None:
                    ae = v
                for X in (II, SI):
                    e = empty_fact(f, X)
                    if e is not None:
                        emp[X] = e
            app = II if ae is True else SI if ae is False else None
            r2.check(app is not None, "selector", "the fast path decides ACC-EMPTY first", "", "the fast path pushes without testing whether "
                     "the output vector is empty", site=site_of_block(body, pb))
            both = emp.get(II) is True and emp.get(SI) is True
            r2.check(app is not None or both, "selector", "the fast path decides ACC-EMPTY first", "", "the fast path pushes without testing whether "
                     "the output vector is empty", site=site_of_block(body, pb)) if False else None
            r1.check((app is not None and emp.get(app) is True) or both, "fast-unindented",
                     "the fast path (no indent part) is only taken when the applicable indent is empty", "EMPTY(applicable indent)",
                     "wrap_single_line's fast path pushes an unindented line on a path where the applicable indent (%s) is not known "
                     "to be empty" % (D(app) if app else "?"), site=site_of_block(body, pb))
    r1.check(len(pushes) == 1, "one-fast-push", "one fast-path push", str(len(pushes)), "expected one push in wrap_single_line, found %d" % len(pushes), nontrivial=False)


ALLOWED = {"crate::core::display_width", "str::is_empty", "String::from", "String::is_empty"}
WRAP_PATH = ["crate::wrap::wrap", WSL, SLOW, "crate::fill::fill", "crate::fill::fill_slow_path"]


def _use_set(prog, rep):
    n = 0
    for key in WRAP_PATH:
        body = prog.body(key)
        if body is None:
            continue
        s = sym_of(body)
        r = Rule(rep, "C08.R3", key, site=body.span)
        D = lambda t: describe(t, body)[:120]
        for b, t, cal in body.calls():
            args = [prog.simp(a, body) for a in s.call_args(b)]
            for a in args:
                srcs = _indent_sources(s, a)
                if srcs and cal.name == "str::len":
                    # EMPTY idiom `indent.len() == 0`: the length may only be compared with 0
                    n += 1
                    lt = ("call", "str::len", (a,))
                    bad = False
                    for b2 in sorted(body.cfg.reach):
                        t2 = body.blocks[b2]["term"]
                        terms = []
                        if t2["k"] == "switch":
                            terms.append(prog.simp(s.switch_value(b2), body))
                        elif t2["k"] == "call":
                            terms.extend(prog.simp(x, body) for x in s.call_args(b2))
                        for i2, st2 in enumerate(body.blocks[b2]["stmts"]):
                            if st2["k"] == "assign" and body.place_name(st2["place"]):
                                terms.append(prog.simp(s.rvalue(st2["rv"], b2, i2), body))
                        for tt in terms:
                            if _len_misused(tt, lt):
                                bad = True
                    r.check(not bad, "use:len-eq-0", "an indent's length is only compared with 0 (EMPTY idiom)", "len() == 0",
                            "the byte length of the indent %s is used for more than an emptiness test: what follows the indent would "
                            "depend on its characters" % D(a), site=t["span"])
                    continue
                if srcs and cal.name in ("PartialEq::eq", "PartialEq::ne") and len(args) == 2 and ("str", "") in args:
                    n += 1      # `indent == ""` is the EMPTY idiom
                    r.check(True, "use:eq-empty", "an indent is only compared with the empty string (EMPTY idiom)", "== \"\"", "", site=t["span"])
                    continue
                if srcs:
                    n += 1
                    r.check(cal.name in ALLOWED, "use:%s" % cal.name, "indent strings only flow into display_width / is_empty / to_owned",
                            "%s(%s)" % (cal.name, D(a)),
                            "the indent %s is passed to %s: what follows the indent would depend on its characters" % (D(a), cal.name), site=t["span"])
        # direct comparisons / other rvalue uses
        for b in sorted(body.cfg.reach):
            for i, st in enumerate(body.blocks[b]["stmts"]):
                if st["k"] == "assign" and st["rv"]["k"] in ("bin",):
                    v = prog.simp(s.rvalue(st["rv"], b, i), body)
                    if any(_indent_sources(s, x) for x in v[2:]):
                        r.check(False, "use:compare", "", "", "an indent string takes part in %s" % D(v), site=st["span"])
    if n < 4:
        rep.violation("C08.R3", "crate", "floor", "crate", "only %d uses of the indent fields found on the wrap path (floor 4)" % n)


def _len_misused(t, lt, parent=None):
    if not isinstance(t, tuple) or not t:
        return False
    if t == lt:
        if parent is not None and parent[0] == "bin" and parent[1] in ("Eq", "Ne", "Gt", "Lt", "Ge", "Le") and ("int", 0) in (parent[2], parent[3]):
            return False
        return parent is not None
    return any(_len_misused(x, lt, t) for x in t if isinstance(x, tuple))


def _indent_sources(s, a, seen=None):
    """Is term a (a phi over) options.initial_indent / subsequent_indent itself?"""
    if a[0] == "field" and a[2] in ("initial_indent", "subsequent_indent") and a[1][0] in ("param", "call"):
        return True
    if a[0] == "phi":
        seen = seen if seen is not None else set()
        if a in seen:
            return False
        seen.add(a)
        ins = s.phi_inputs(a)
        return any(_indent_sources(s, v, seen) for v in ins.values())
    return False


def run(prog, rep):
    from . import optconv
    optconv.check(prog, rep, 'C08')
    guarded(rep, "C08.R1", SLOW, lambda: _slow(prog, rep))
    guarded(rep, "C08.R1", WSL, lambda: _fast(prog, rep))
    guarded(rep, "C08.R3", "crate", lambda: _use_set(prog, rep))
    # "including lines that come from empty paragraphs": every paragraph must yield at least one line, i.e. the
    # wrap algorithms return a non-empty arrangement even for an empty word list
    lemmas.load_all()
    need = ["C06.R2", "DISPATCH", "C04.WRAPPATH"]
    from .common import has_feature as _hf
    if _hf(prog, "smawk"):
        need.append("C06.R3")
    for l in need:
        st = lemmas.status(prog, l)
        if st == "ok":
            rep.ok("C08.R4", "crate", "lemma %s holds in this run" % l, "evaluated: ok", nontrivial=False)
        else:
            rep.violation("C08.R4", "crate", "lemma:" + l, "crate", "lemma %s is %s in this run: an empty paragraph could produce "
                          "no line at all, so its indent would be missing from the output" % (l, st))

"""C05 - text that already fits is returned unchanged; the shortcut path is unobservable."""
from ..sym import sym_of
from ..engine import AnchorMissing
from ..poly import poly, fact_nf, GT0, GE0, EQ0, NE0
from ..paths import PathView, contradictory
from ..describe import describe
from ..idioms import empty_fact, vec_empty_fact
from .. import lemmas
from .common import configs_for
from .util import Rule, guarded, site_of_block
from . import models

TITLE = "Text that already fits is returned unchanged; the shortcut path is unobservable"
TECHNIQUE = "control-dependence and normal-form rules on the shortcut guards, constant agreement of the two trimmers, provenance of the slow-path arguments"
DESIGN_REF = "DESIGN.md 4.6, 4.4, 4.7, 6/C05"
EXPLANATION = (
    "D: (R1) the fast-path push in wrap_single_line is control dependent on the applicable indent (selected by ACC-EMPTY) "
    "being empty; fill's fast return on initial_indent being empty and on !text.contains('\\n'). (R2) the remaining conjunct "
    "is M(x) < width (or <=) with M in {str::len, display_width} applied to the same x whose trimmed form is returned; both "
    "are upper bounds of the display width (C10.R4 / A-uw). (R3) the fast result is x.trim_end_matches(' '), the same "
    "constant Word::from trims (C11.R3). (R4) when the guard fails the slow path receives the same arguments; under "
    "--cfg fuzzing (thorough tier) the three wrappers forward to exactly these functions. "
    "T: if len < width then all words fit on one line, first-fit returns one line and reassembly (C01.R1) drops only the last "
    "word's spaces, i.e. the trimmed paragraph. U (not decided statically): the optimal-fit half - that one line is the "
    "optimum under default penalties - is a numeric argument on paper."
    " (R5) every producer of fragment boundaries (ASCII-space and Unicode separators, hyphen splitter, break_apart) scans with skip_ansi_escape_sequence, so that no boundary falls inside an escape sequence and the widths of the fragments of a paragraph add up to its display width; the two producers that do not (hyphen splitter, ASCII-space separator) are genuine findings on the pinned tree, recorded in KNOWN_FINDINGS.txt with the failing inputs."
)
ASSUMPTIONS = ["A-rustc", "A-uw / C10.R4: display width <= byte length"]
LEVEL_TEXT = (
    "Decides that the shortcut is only taken under conditions under which the general path provably returns the same single "
    "line for first-fit (indent empty, single paragraph, byte length below the width), that it trims exactly what the general "
    "path trims, and that the general path gets unchanged arguments otherwise."
)
LEVEL_NOTE = "Trusted: rustc MIR; equality with the optimal-fit result is argued on paper from the default penalties."

WSL = "crate::wrap::wrap_single_line"
FILL = "crate::fill::fill"
SP = ("char", 0x20)


def configs(tier):
    return configs_for(tier)


def _measure_ok(nfs, x, width):
    """one of: width - M(x) > 0 or >= 0 with M in {len, display_width}"""
    for M in ("str::len", "crate::core::display_width"):
        p = poly(width) - poly(("call", M, (x,)))
        if GT0(p) in nfs or GE0(p) in nfs or GT0(p + poly(("int", 1))) in nfs:
            return M
    return None


def _wsl(prog, rep):
    body = prog.need_body(WSL)
    s = sym_of(body)
    D = lambda t: describe(t, body)[:140]
    P = lambda i: ("param", i, body.arg_names.get(i, "_%d" % i))
    LINE, OPT, ACC = P(1), P(2), P(3)
    II, SI, W = ("field", OPT, "initial_indent"), ("field", OPT, "subsequent_indent"), ("field", OPT, "width")
    r1 = Rule(rep, "C05.R1", WSL, site=body.span)
    r2 = Rule(rep, "C05.R2", WSL, site=body.span)
    r3 = Rule(rep, "C05.R3", WSL, site=body.span)
    r4 = Rule(rep, "C05.R4", WSL, site=body.span)
    pushes = [b for b, t, c in body.calls() if c.name == "Vec::push"]
    if len(pushes) != 1:
        raise AnchorMissing("wrap_single_line: expected one fast-path push")
    pb = pushes[0]
    val = prog.simp(s.call_args(pb)[1], body)
    want = ("adt", "std::borrow::Cow", "Borrowed", (("0", ("call", "str::trim_end_matches", (LINE, SP))),))
    r3.check(val == want, "trim", "the fast result is line.trim_end_matches(' ')", D(val),
             "the fast path returns %s; the general path trims exactly trailing ' ' (Word::from)" % D(val))
    np = 0
    for path in models.entry_paths_to(prog, body, pb):
        pv = PathView(prog, body, path)
        facts = pv.facts()
        if contradictory(facts):
            continue
        np += 1
        ae = None
        emp = {}
        for f in facts:
            v = vec_empty_fact(f, ACC)
            if v is not None:
                ae = v
            for X in (II, SI):
                e = empty_fact(f, X)
                if e is not None:
                    emp[X] = e
        app = II if ae is True else SI if ae is False else None
        r1.check(app is not None and emp.get(app) is True, "indent-empty", "the shortcut requires the applicable indent to be empty",
                 "EMPTY(applicable indent)", "the shortcut is taken on a path where the applicable indent is not known to be empty")
        nfs = [fact_nf(f) for f in facts if f[0][0] == "cmp"]
        M = _measure_ok(nfs, LINE, W)
        r2.check(M is not None, "fits", "the shortcut requires len(line) < width (an upper bound of the display width)",
                 "measure %s" % M, "the shortcut's size test is %s; expected line.len() < options.width (or display_width)" %
                 [(k, p.show(D)) for k, p in nfs])
    r1.check(np >= 2, "paths", "both indent selections reach the shortcut", str(np), "only %d feasible paths to the shortcut" % np, nontrivial=False)
    fw = [(b, [prog.simp(a, body) for a in s.call_args(b)]) for b, t, c in body.calls() if c.name == "crate::wrap::wrap_single_line_slow_path"]
    r4.check(len(fw) == 1 and fw[0][1][0] == LINE and fw[0][1][1] == OPT and fw[0][1][2] == ("mutref", (3, ("deref",))), "slow-args",
             "otherwise the slow path receives the same paragraph, options and output vector", "",
             "the slow path is called with %s" % [[D(x) for x in f[1]] for f in fw])


def _fill(prog, rep):
    body = prog.need_body(FILL)
    s = sym_of(body)
    D = lambda t: describe(t, body)[:140]
    TEXT = ("param", 1, body.arg_names.get(1, "_1"))
    OPT = ("call", "Into::into", (("param", 2, body.arg_names.get(2, "_2")),))
    II, W = ("field", OPT, "initial_indent"), ("field", OPT, "width")
    r1 = Rule(rep, "C05.R1", FILL, site=body.span)
    r2 = Rule(rep, "C05.R2", FILL, site=body.span)
    r3 = Rule(rep, "C05.R3", FILL, site=body.span)
    r4 = Rule(rep, "C05.R4", FILL, site=body.span)
    fast = None
    for b in sorted(body.cfg.reach):
        t = body.blocks[b]["term"]
        if t["k"] == "call" and t["dest"]["l"] == 0 and body.callee(b).name in ("String::from",):
            fast = b
    if fast is None:
        raise AnchorMissing("fill: fast return not found")
    val = prog.simp(s.call_term(fast), body)
    want = ("call", "String::from", (("call", "str::trim_end_matches", (TEXT, SP)),))
    r3.check(val == want, "trim", "fill's fast result is text.trim_end_matches(' ')", D(val),
             "fill's fast path returns %s; the general path trims exactly trailing ' '" % D(val))
    for path in models.entry_paths_to(prog, body, fast):
        pv = PathView(prog, body, path)
        facts = pv.facts()
        if contradictory(facts):
            continue
        e = None
        nl = None
        for f in facts:
            x = empty_fact(f, II)
            if x is not None:
                e = x
            a, pol = f
            if a[0] == "b" and a[1][0] == "call" and a[1][1] == "str::contains" and a[1][2] == (TEXT, ("char", 10)):
                nl = pol
            fnd = ("call", "str::find", (TEXT, ("char", 10)))
            if a[0] == "b" and a[1] in (("call", "Option::is_none", (fnd,)), ("call", "Option::is_some", (fnd,))):
                nl = pol if a[1][1] == "Option::is_some" else not pol      # find(c).is_some() is contains(c)
            if a[0] == "variant" and a[1] == fnd and a[2] in ("Some", "None"):
                nl = pol if a[2] == "Some" else not pol
        r1.check(e is True, "indent-empty", "fill's shortcut requires an empty initial indent", "EMPTY(initial_indent)",
                 "fill's shortcut is taken although the initial indent is not known to be empty: the indent would be dropped")
        r1.check(nl is False, "single-paragraph", "fill's shortcut requires !text.contains('\\n')", "no newline",
                 "fill's shortcut is taken for text that may contain '\\n': a multi-paragraph text would be returned unwrapped")
        nfs = [fact_nf(f) for f in facts if f[0][0] == "cmp"]
        M = _measure_ok(nfs, TEXT, W)
        r2.check(M is not None, "fits", "fill's shortcut requires len(text) < width", "measure %s" % M,
                 "fill's size test is %s; expected text.len() < options.width (or display_width)" % [(k, p.show(D)) for k, p in nfs])
    # every value fill can return is one of the two: no third way out that bypasses both
    slow = ("call", "crate::fill::fill_slow_path", (TEXT, OPT))
    outs = set()
    work = [s.val((0, ()), r, "term") for r in body.cfg.returns]
    seen_phi = set()
    while work:
        v = work.pop()
        if v[0] == "phi" and v not in seen_phi:
            seen_phi.add(v)
            work.extend(s.phi_inputs(v).values())
            continue
        outs.add(prog.simp(v, body))
    extra = [v for v in outs if v not in (want, slow)]
    r4.check(not extra, "only-two-results", "fill returns either the shortcut value or fill_slow_path(text, options)", "%d result values" % len(outs),
             "fill can also return %s: a path that bypasses both the shortcut and fill_slow_path" % [D(v) for v in extra][:2])
    fw = [(b, [prog.simp(a, body) for a in s.call_args(b)]) for b, t, c in body.calls() if c.name == "crate::fill::fill_slow_path"]
    r4.check(len(fw) == 1 and fw[0][1] == [TEXT, OPT], "slow-args", "otherwise fill_slow_path receives the same text and options", "",
             "fill_slow_path is called with %s" % [[D(x) for x in f[1]] for f in fw])


# Producers of fragment boundaries: functions that decide at which byte offsets a paragraph is cut into fragments
# whose widths are then measured separately with display_width.  (Custom separators / splitters: A-custom.)
BOUNDARY_PRODUCERS = [
    ("crate::word_separators::find_words_ascii_space", "ascii-space-separator",
     "the ASCII-space separator ends a word at every ' ', also at a space inside an OSC sequence (e.g. a window title)"),
    ("crate::word_separators::find_words_unicode_break_properties", "unicode-separator",
     "the Unicode separator computes break opportunities"),
    ("crate::word_splitters::WordSplitter::split_points", "hyphen-splitter",
     "the hyphen splitter puts a split point after every '-' between alphanumerics, also inside an escape sequence "
     "(e.g. the URL of an OSC 8 hyperlink)"),
    ("crate::core::Word::break_apart", "break-apart", "force-breaking cuts a word into pieces"),
]
SKIPPER = "crate::core::skip_ansi_escape_sequence"


def _escape_aware(prog, rep, rule="C05.R5", consequence=None):
    """R5: the width of a paragraph that fits is the sum of the widths of its fragments only if no fragment boundary
    falls inside an escape sequence (display_width is additive over pieces that each contain whole sequences, C10).
    Every producer of boundaries must therefore scan with the escape skipper (directly or through a helper / closure)."""
    def reaches(key):
        # the producer itself or one of its closures calls the skipper (helper functions are inlined before analysis;
        # measuring functions such as Word::from / display_width do not count: they measure, they do not scan for boundaries)
        bodies = [prog.body(key)] + list(prog.closures_of(key).values() if isinstance(prog.closures_of(key), dict) else prog.closures_of(key))
        work = [b for b in bodies if b is not None]
        seen = set()
        while work:
            b = work.pop()
            if b.key in seen:
                continue
            seen.add(b.key)
            for _blk, _t, cal in b.calls():
                if cal.name == SKIPPER:
                    return True
            cl = prog.closures_of(b.key)
            work.extend(cl.values() if isinstance(cl, dict) else cl)
        return False
    n = 0
    for key, role, what in BOUNDARY_PRODUCERS:
        body = prog.body(key)
        if body is None:
            continue       # not compiled in this configuration
        n += 1
        r = Rule(rep, rule, key, site=body.span)
        r.check(reaches(key), role, "%s: boundaries are computed by a scan that skips escape sequences" % role,
                "reaches skip_ansi_escape_sequence in the call graph",
                "%s without consulting skip_ansi_escape_sequence: a fragment boundary can fall inside an escape sequence; the "
                "pieces then hold incomplete sequences, display_width is no longer additive over them, and %s"
                % (what, consequence or "a paragraph whose display width fits can be wrapped into several lines"))
    if n < 3:
        rep.violation(rule, "crate", "floor", "crate", "only %d boundary producers found (floor 3)" % n)


def _fuzzing(prog, rep):
    pairs = {"crate::fuzzing::fill_slow_path": "crate::fill::fill_slow_path",
             "crate::fuzzing::wrap_single_line": "crate::wrap::wrap_single_line",
             "crate::fuzzing::wrap_single_line_slow_path": "crate::wrap::wrap_single_line_slow_path"}
    for k, target in pairs.items():
        body = prog.body(k)
        r = Rule(rep, "C05.R4", k, site=body.span if body else k)
        if body is None:
            r.check(False, "wrapper", "", "", "fuzzing wrapper %s not found in the fuzzing configuration" % k)
            continue
        s = sym_of(body)
        calls = [(b, c.name, [prog.simp(a, body) for a in s.call_args(b)]) for b, t, c in body.calls()]
        params = [("param", i, body.arg_names.get(i, "_%d" % i)) for i in range(1, body.arg_count + 1)]
        ok = len(calls) == 1 and calls[0][1] == target and all(
            a == p or (a[0] == "mutref" and a[1] == (p[1], ("deref",))) for a, p in zip(calls[0][2], params))
        r.check(ok, "wrapper-forwards", "%s forwards its arguments unchanged to %s" % (k.split("::")[-1], target), "",
                "the fuzzing wrapper %s does not simply forward to %s" % (k, target))


def run(prog, rep):
    from . import optconv
    optconv.check(prog, rep, 'C05')
    lemmas.load_all()
    guarded(rep, "C05.R1", WSL, lambda: _wsl(prog, rep))
    guarded(rep, "C05.R1", FILL, lambda: _fill(prog, rep))
    guarded(rep, "C05.R5", "crate", lambda: _escape_aware(prog, rep))
    if prog.config == "fuzzing":
        guarded(rep, "C05.R4", "crate::fuzzing", lambda: _fuzzing(prog, rep))
    # the general path must agree with the shortcut: it measures with the indent the line carries (C02), does not
    # break a line that fits (C07.R1 / C03), keeps every word (C06) and reassembles it unchanged (C01.R1)
    need = ["C04.WRAPPATH", "C11.R3", "C11.R1", "C11.R9", "C10", "C01.R1", "C02", "DISPATCH", "C07.R1", "C06.R2",
            "C12.R1", "C12.R2", "C12.R4", "C12.R9", "C12.R5", "C12.R6", "C12.R7", "C12.R8"]
    from .common import has_feature as _hf
    if _hf(prog, "smawk"):
        need += ["C03.R1", "C03.R2", "C06.R3"]
    if _hf(prog, "unicode-linebreak"):
        need += ["C11.R2", "C11.R5", "C11.R6", "C11.R7"]      # the words of the general path
    for l in need:
        st = lemmas.status(prog, l)
        if st == "ok":
            rep.ok("C05.R3", "crate", "lemma %s holds in this run" % l, "evaluated: ok", nontrivial=False)
        else:
            rep.violation("C05.R3", "crate", "lemma:" + l, "crate", "lemma %s is %s in this run" % (l, st))


def _lemma(prog):
    from ..engine import Report
    rep = Report("C05")
    rep.set_config(prog.config)
    guarded(rep, "C05.R1", WSL, lambda: _wsl(prog, rep))
    guarded(rep, "C05.R1", FILL, lambda: _fill(prog, rep))
    return not rep.violations


lemmas.register("C05", _lemma)

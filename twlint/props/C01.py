"""C01 - wrapping preserves the text: lines are in-order slices of the input."""
from ..sym import sym_of, subterms
from ..engine import AnchorMissing, loop_models
from ..poly import poly, fact_nf
from ..paths import loop_system, PathView, entry_value
from ..describe import describe
from ..idioms import empty_fact, vec_empty_fact
from ..engines.schemas import range_parts, sum_parts, resolve_iter
from .. import lemmas
from .common import configs_for, has_feature
from .util import Rule, guarded, site_of_block, check_visits_all
from . import models

TITLE = "Wrapping preserves the text: lines are in-order slices of the input"
TECHNIQUE = "affine accounting of the byte offset (linear normal forms), append-trace grammar of the line under construction, control-dependence of owned allocations, provenance of the paragraph split"
DESIGN_REF = "DESIGN.md 4.3, 4.5, 4.6, 6/C01"
EXPLANATION = (
    "D: (R1) ACCT in wrap_single_line_slow_path: with S = sum over the words of an output line of len(word)+len(whitespace) "
    "and W = len(last.whitespace), the pushed slice is line[idx .. idx+S-W], the transition is idx' = idx+S, idx starts at 0 "
    "and `last` is words.last() of the same words. (R2) TRACE of the line under construction: [indent or \"\"], += &line[slice], "
    "[to_mut().push_str(last.penalty) iff the penalty is non-empty], then moved into the output; no other mutation. (R3) every "
    "owned construction (Cow::Owned / to_owned / to_mut) feeding a pushed line is control dependent on a non-empty indent or "
    "penalty; otherwise the start value is Cow::from(\"\") so that += borrows. (R4) fast paths: wrap_single_line pushes "
    "Cow::from(line.trim_end_matches(' ')) of its own paragraph; fill returns String::from(text.trim_end_matches(' ')). "
    "(R5) wrap hands each item of text.split(options.line_ending.as_str()) unchanged and in order to the paragraph function and "
    "only that function touches the output vector. (R6) the only Word inserted outside the separator/splitter/breaker pipeline "
    "is Word::from(\"\"). (R7) imports the contiguity and partition lemmas C06.R2/R3, C11.R1-R3, C12.R1/R5. "
    "T: lines are indent + slice (+ hyphen); slices are consecutive and ordered; skipped bytes are the last word's spaces; "
    "between paragraphs exactly the line ending. U: nothing beyond A-std and A-custom (Custom splitters that insert hyphens)."
)
ASSUMPTIONS = ["A-rustc", "A-std (str::split, Cow += keeps Borrowed when the left side is empty)", "A-custom"]
LEVEL_TEXT = (
    "Decides, as equations between linear normal forms and as an append-trace grammar on every path, that line reassembly "
    "slices the paragraph at exactly the running sum of word lengths and adds nothing but the indent and the splitter's "
    "penalty; with the contiguity lemmas of C06/C11/C12 (evaluated in the same run) this gives the partition property for all "
    "inputs."
)
LEVEL_NOTE = "Trusted: rustc MIR, std str/Cow primitives; contiguity of words is decided by C11/C12 rules imported as lemmas."

SP = ("char", 0x20)


def configs(tier):
    return configs_for(tier)


def _sum_term(prog, m):
    """The S term: iter().map(|w| w.len() + w.whitespace.len()).sum() over the line's words."""
    return None


def _r123(prog, rep):
    m = models.slow_path(prog)
    body = m.body
    fn = m.key
    D = lambda t: describe(t, body)[:160]
    r1 = Rule(rep, "C01.R1", fn, site=body.span)
    r2 = Rule(rep, "C01.R2", fn, site=body.span)
    r3 = Rule(rep, "C01.R3", fn, site=body.span)
    r1.check(m.idx0 == ("int", 0), "idx-init", "the byte offset starts at 0", D(m.idx0), "the running offset starts at %s" % D(m.idx0))
    check_visits_all(r1, body, m.lm, "the reassembly loop over the arranged lines")
    n_slice = 0
    for rec in m.recs:
        tr = rec.tr
        site = site_of_block(body, tr.path[-2])
        nxt = tr.next[m.idx_pk]
        if rec.last_none:
            r1.check(nxt == m.idx, "empty-line-keeps", "an empty arrangement line leaves the offset unchanged", "next(idx) = idx",
                     "the offset changes to %s for a line without words" % D(nxt), site=site)
            continue
        if rec.last is None:
            r1.check(False, "last-word", "", "", "a path through the reassembly loop does not obtain words.last()", site=site)
            continue
        # events on the line under construction
        evs = rec.res_events
        adds = [e for e in evs if e[1] == "AddAssign::add_assign"]
        if len(adds) != 1:
            r2.check(False, "one-slice", "", "", "the line under construction receives %d slices" % len(adds), site=site)
            continue
        n_slice += 1
        sl = adds[0][2][1]
        oks = sl[0] == "call" and sl[1] == "Index::index" and sl[2][0] == m.LINE
        kind, st, en = range_parts(sl[2][1]) if oks else (None, None, None)
        r1.check(oks and kind == "range", "slice-of-line", "the appended text is a slice of the paragraph", D(sl),
                 "the appended text is %s, not a slice line[a..b] of the paragraph" % D(sl), site=site)
        if not (oks and kind == "range"):
            continue
        # find the sum term
        sums = [x for x in subterms(en) if x[0] == "call" and x[1] == "Iterator::sum"] + \
               [x for x in subterms(nxt) if x[0] == "call" and x[1] == "Iterator::sum"]
        if not sums:
            r1.check(False, "sum-term", "", "", "the slice end %s does not involve a sum over the line's words" % D(en), site=site)
            continue
        S = sums[0]
        sp = sum_parts(prog, S)
        oksum = False
        if sp is not None:
            sl_, cb, summands, param = sp
            want = sorted([("call", "str::len", (("field", param, "word"),)), ("call", "str::len", (("field", param, "whitespace"),))], key=repr)
            oksum = sl_ == m.words and sorted(summands, key=repr) == want
        r1.check(oksum, "sum-shape", "S sums len(word) + len(whitespace) over the words of this output line",
                 "iter().map(|w| w.len() + w.whitespace.len()).sum()",
                 "the summed quantity is %s; expected the sum of word.len() + word.whitespace.len() over this line's words" % D(S), site=site)
        W = ("call", "str::len", (("field", rec.last, "whitespace"),))
        pS, pW, pi = poly(S), poly(W), poly(m.idx)
        r1.check(poly(st) == pi, "slice-start", "the slice starts at idx", "start = idx", "the slice starts at %s instead of the running offset" % D(st), site=site)
        r1.check(poly(en) == pi + pS - pW, "slice-end", "the slice ends at idx + S - W", "end = idx + S - len(last.whitespace)",
                 "the slice ends at %s; expected idx + S - len(last.whitespace) (trailing spaces of the line's last word excluded)"
                 % poly(en).show(D), site=site)
        r1.check(poly(nxt) == pi + pS, "advance", "idx' = idx + S", "next(idx) = idx + S",
                 "the offset advances to %s; expected idx + S (all words of the line including the skipped spaces)" % poly(nxt).show(D), site=site)
        # R2: trace grammar
        names = [e[1] for e in evs]
        pen = ("field", rec.last, "penalty")
        if rec.e_pen is False:
            exp = ["AddAssign::add_assign", "Cow::to_mut", "String::push_str"]
            okp = names == exp and evs[2][2][1] == pen
            r2.check(okp, "trace-penalty", "with a non-empty penalty: += slice, to_mut().push_str(last.penalty)", str(names),
                     "with a non-empty penalty the line receives %s; expected += slice then push_str(last.penalty)"
                     % [(n, [D(x) for x in a[1:]]) for _b, n, a in evs], site=site)
        elif rec.e_pen is True:
            r2.check(names == ["AddAssign::add_assign"], "trace-plain", "with an empty penalty only the slice is appended", str(names),
                     "with an empty penalty the line receives %s; expected only += slice" % names, site=site)
            r3.check("Cow::to_mut" not in names, "no-to-mut", "no to_mut() without a penalty", "", "to_mut() is called on a line without penalty", site=site)
        else:
            r2.check(False, "penalty-branch", "", "", "a path does not test whether last.penalty is empty", site=site)
        # pushed exactly once, the line itself
        r2.check(len(rec.pushes) == 1 and rec.pushes[0][1] == "Vec::push" and rec.pushes[0][2][1][0] == "mut"
                 and rec.pushes[0][2][1][3] in m.result_roots, "push-line", "the finished line is pushed once", "lines.push(result)",
                 "the output receives %s instead of exactly the line under construction" % [(n, [D(x) for x in a[1:]]) for _b, n, a in rec.pushes], site=site)
        # R3 / init
        init = rec.init
        applicable = m.II if rec.acc_empty else m.SI
        e_app = rec.e_init if rec.acc_empty else rec.e_sub
        if init == ("adt", "std::borrow::Cow", "Borrowed", (("0", ("str", "")),)):
            r3.check(True, "borrow-start", "without indent the line starts as Cow::from(\"\")", D(init), "")
        elif init is not None and init[0] == "adt" and init[2] == "Owned":
            inner = init[3][0][1]
            okown = inner[0] == "call" and inner[1] == "String::from" and inner[2][0] in (m.II, m.SI)
            r2.check(okown, "indent-start", "otherwise the line starts as the owned indent", D(init),
                     "the line under construction starts as %s" % D(init), site=site)
            src = inner[2][0] if okown else None
            e_src = rec.e_init if src == m.II else rec.e_sub if src == m.SI else None
            r3.check(e_src is False, "owned-needs-indent", "an owned start value is control dependent on a non-empty indent",
                     "!EMPTY(indent) on this path", "an owned line is constructed on a path where the indent is not known to be "
                     "non-empty: plain lines would come back as Cow::Owned", site=site)
        else:
            r2.check(False, "start-shape", "", "", "the line under construction starts as %s; expected the indent or Cow::from(\"\")"
                     % (D(init) if init else "?"), site=site)
    r1.check(n_slice >= 4, "paths-found", "the reassembly paths were analysed", "%d slicing paths" % n_slice,
             "only %d slicing paths found in the reassembly loop" % n_slice, nontrivial=False)
    # R6: sentinel words
    r6 = Rule(rep, "C01.R6", fn, site=body.span)
    s = sym_of(body)
    for b, t, cal in body.calls():
        if cal.name in ("Vec::insert", "Vec::push") and b not in m.lm.blocks:
            args = [prog.simp(a, body) for a in s.call_args(b)]
            v = args[-1]
            r6.check(v == ("call", "crate::core::Word::from", (("str", ""),)), "sentinel",
                     "a Word inserted outside the pipeline is Word::from(\"\")", D(v),
                     "%s inserts %s into the word list: text that is not in the input" % (cal.name, D(v)), site=t["span"])


def _r4(prog, rep):
    # wrap_single_line fast path
    key = "crate::wrap::wrap_single_line"
    body = prog.need_body(key)
    s = sym_of(body)
    r = Rule(rep, "C01.R4", key, site=body.span)
    D = lambda t: describe(t, body)[:140]
    LINE = ("param", 1, body.arg_names.get(1, "_1"))
    pushes = [(b, [prog.simp(a, body) for a in s.call_args(b)]) for b, t, c in body.calls() if c.name == "Vec::push"]
    want = ("adt", "std::borrow::Cow", "Borrowed", (("0", ("call", "str::trim_end_matches", (LINE, SP))),))
    r.check(len(pushes) == 1 and pushes[0][1][1] == want, "wrap-fast", "the fast path pushes Cow::from(line.trim_end_matches(' '))",
            D(pushes[0][1][1]) if pushes else "", "wrap_single_line's fast path pushes %s; expected Cow::from(line.trim_end_matches(' '))"
            % ([D(p[1][1]) for p in pushes]))
    key2 = "crate::fill::fill"
    b2 = prog.need_body(key2)
    s2 = sym_of(b2)
    r2 = Rule(rep, "C01.R4", key2, site=b2.span)
    D2 = lambda t: describe(t, b2)[:140]
    TEXT = ("param", 1, b2.arg_names.get(1, "_1"))
    ret = s2.val((0, ()), b2.cfg.returns[0], "term")
    vals = [prog.simp(v, b2) for v in s2.phi_inputs(ret).values()] if ret[0] == "phi" else [prog.simp(ret, b2)]
    want2 = ("call", "String::from", (("call", "str::trim_end_matches", (TEXT, SP)),))
    slow = [v for v in vals if v[0] == "call" and v[1] == "crate::fill::fill_slow_path"]
    fast = [v for v in vals if v not in slow]
    r2.check(len(fast) == 1 and fast[0] == want2, "fill-fast", "fill's fast path returns String::from(text.trim_end_matches(' '))",
             D2(fast[0]) if fast else "", "fill's fast path returns %s; expected String::from(text.trim_end_matches(' '))" % [D2(v) for v in fast])
    r2.check(len(slow) == 1, "fill-slow", "otherwise fill returns fill_slow_path(..)", "", "fill does not fall back to fill_slow_path", nontrivial=False)


def _r5(prog, rep):
    key = "crate::wrap::wrap"
    body = prog.need_body(key)
    s = sym_of(body)
    r = Rule(rep, "C01.R5", key, site=body.span)
    D = lambda t: describe(t, body)[:160]
    TEXT = ("param", 1, body.arg_names.get(1, "_1"))
    OPT = ("call", "Into::into", (("param", 2, body.arg_names.get(2, "_2")),))
    acc = models.returned_vec_root(prog, body)
    lms = [lm for lm in loop_models(prog, body) if lm.kind == "iter"]
    if len(lms) != 1:
        raise AnchorMissing("wrap: expected one loop")
    lm = lms[0]
    want = ("call", "str::split", (TEXT, ("call", "crate::line_ending::LineEnding::as_str", (("field", OPT, "line_ending"),))))
    r.check(lm.source == want, "split", "wrap iterates text.split(options.line_ending.as_str())", D(lm.source),
            "wrap iterates %s; expected text.split(options.line_ending.as_str())" % D(lm.source))
    muts = models.mutators_of(prog, body, acc)
    inloop = [(b, n) for b, n in muts if b in lm.blocks]
    r.check(len(inloop) == 1 and inloop[0][1] == "crate::wrap::wrap_single_line", "per-paragraph",
            "each paragraph is handed to wrap_single_line with the shared output vector", str(inloop),
            "inside the paragraph loop the output vector is touched by %s; expected exactly one call of wrap_single_line" % inloop)
    if len(inloop) == 1:
        args = [prog.simp(a, body) for a in s.call_args(inloop[0][0])]
        r.check(args[0] == lm.item and args[1] == OPT, "args", "the paragraph is passed unchanged together with the caller's options",
                "(item, &options, &mut lines)", "wrap_single_line receives (%s, %s) instead of the split item and the options"
                % (D(args[0]), D(args[1])))
    outside = [(b, n) for b, n in muts if b not in lm.blocks and n not in ("Vec::new", "Vec::with_capacity")]
    r.check(not outside and models.acc_init(prog, body, acc) in ("Vec::new", "Vec::with_capacity"), "only-paragraphs",
            "the output starts empty and only the paragraph function appends to it", "", "the output vector is also modified by %s" % outside)
    # forwarding inside wrap_single_line
    k2 = "crate::wrap::wrap_single_line"
    b2 = prog.need_body(k2)
    s2 = sym_of(b2)
    fw = [(b, [prog.simp(a, b2) for a in s2.call_args(b)]) for b, t, c in b2.calls() if c.name == "crate::wrap::wrap_single_line_slow_path"]
    P = lambda i: ("param", i, b2.arg_names.get(i, "_%d" % i))
    r2 = Rule(rep, "C01.R5", k2, site=b2.span)
    r2.check(len(fw) == 1 and fw[0][1][0] == P(1) and fw[0][1][1] == P(2) and fw[0][1][2][0] == "mutref", "forward",
             "the slow path receives the same paragraph, options and output vector", "",
             "wrap_single_line forwards %s to the slow path" % [[describe(x, b2)[:60] for x in f[1]] for f in fw])


def _witness(prog, rep, names, rule, what):
    from ..witness import run_witnesses
    res = run_witnesses()
    for n in names:
        if res.get(n) is True:
            rep.ok(rule, "witness::" + n, "%s (%s)" % (what, n), "doc test %s: compile result as expected" % n)
        else:
            rep.violation(rule, "witness::" + n, "witness", "witness/lib.rs", "compile-time witness %s %s: %s no longer holds at the type level"
                          % (n, "did not behave as expected" if n in res else "was not run", what))


def run(prog, rep):
    from . import optconv
    optconv.check(prog, rep, 'C01')
    lemmas.load_all()
    if prog.config == "default":
        _witness(prog, rep, ["W1Ok", "W1Ok2", "W1Fail"], "C01.R8", "lines returned by wrap borrow from the text and not from the options")
    guarded(rep, "C01.R1", "crate::wrap::wrap_single_line_slow_path", lambda: _r123(prog, rep))
    guarded(rep, "C01.R4", "crate::wrap::wrap_single_line", lambda: _r4(prog, rep))
    guarded(rep, "C01.R5", "crate::wrap::wrap", lambda: _r5(prog, rep))
    # R7: imported lemmas
    # the word list is a contiguous, lossless cover of the line (C11, C12) and the arrangement a partition of it (C06)
    need = ["C04.WRAPPATH", "DISPATCH", "C06.R2", "C11.R1", "C11.R3", "C11.R9", "C12.R1", "C12.R2", "C12.R3", "C12.R4", "C12.R5", "C12.R6", "C12.R7",
            "C12.R8", "C12.R9"]
    if has_feature(prog, "smawk"):
        need.append("C06.R3")
    if has_feature(prog, "unicode-linebreak"):
        need += ["C11.R2", "C11.R5", "C11.R6", "C11.R7"]
    for l in need:
        st = lemmas.status(prog, l)
        if st == "ok":
            rep.ok("C01.R7", "crate", "lemma %s holds in this run" % l, "evaluated: ok", nontrivial=False)
        else:
            rep.violation("C01.R7", "crate", "lemma:%s" % l, "crate", "contiguity/partition lemma %s is %s in this run: line reassembly "
                          "relies on it" % (l, st))


def _lemma_r1(prog):
    from ..engine import Report
    rep = Report("C01")
    rep.set_config(prog.config)
    guarded(rep, "C01.R1", "x", lambda: _r123(prog, rep))
    return not any(v.rule == "C01.R1" for v in rep.violations)


lemmas.register("C01.R1", _lemma_r1)

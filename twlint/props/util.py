"""Small helpers for writing rule instances."""
from ..describe import describe
from ..engine import AnchorMissing


class Rule:
    """Collects the verdict of one rule instance into a Report."""

    def __init__(self, rep, rule, func, site=None):
        self.rep = rep
        self.rule = rule
        self.func = func
        self.site = site or func
        self.failed = False

    def check(self, cond, role, ok_what, how, bad_msg, site=None, nontrivial=True):
        if cond:
            self.rep.ok(self.rule, self.func, ok_what, how or "holds", nontrivial=nontrivial, site=site or self.site)
            return True
        self.failed = True
        self.rep.violation(self.rule, self.func, role, site or self.site, bad_msg)
        return False


def guarded(rep, rule, func, fn):
    """Run a rule body; a lost anchor becomes an anchor-not-found violation."""
    try:
        fn()
    except AnchorMissing as e:
        rep.anchor_missing(rule, func, str(e))


def site_of_block(body, b):
    return body.blocks[b]["term"]["span"]

"""Small helpers for writing rule instances."""
from ..describe import describe
from ..engine import AnchorMissing


class Rule:
    """Collects the verdict of one rule instance into a Report."""

    def __init__(self, rep, rule, func, site=None):
        self.rep = rep
        self.rule = rule
        self.func = func
        self.site = site or func
        self.failed = False

    def check(self, cond, role, ok_what, how, bad_msg, site=None, nontrivial=True):
        if cond:
            self.rep.ok(self.rule, self.func, ok_what, how or "holds", nontrivial=nontrivial, site=site or self.site)
            return True
        self.failed = True
        self.rep.violation(self.rule, self.func, role, site or self.site, bad_msg)
        return False


def guarded(rep, rule, func, fn):
    """Run a rule body; a lost anchor becomes an anchor-not-found violation."""
    try:
        fn()
    except AnchorMissing as e:
        rep.anchor_missing(rule, func, str(e))


def site_of_block(body, b):
    return body.blocks[b]["term"]["span"]


# ---- guard comparison by truth table --------------------------------------
def norm_fact(f):
    """Hashable normal form of a pred fact: comparison facts become canonical polynomial
    normal forms (orientation, negation and constant folding do not matter), others stay (atom, pol)."""
    from ..poly import fact_nf
    if f[0][0] == "cmp":
        return fact_nf(f)
    return (f[0], f[1])


def neg_norm(nf):
    from ..poly import negate_cmp
    if isinstance(nf[0], str):
        return negate_cmp(nf)
    return (nf[0], not nf[1])


def truth_row(facts, atoms, ignore=None):
    """Partial assignment {atom index: bool} that a conjunction of facts gives to the listed
    atoms (each a fact with positive polarity).  A fact about none of the atoms makes the
    row unknown (None) unless ignore(fact) accepts it."""
    natoms = [norm_fact(a) for a in atoms]
    row = {}
    for f in facts:
        nf = norm_fact(f)
        hit = False
        for i, a in enumerate(natoms):
            if nf == a:
                if row.get(i) is False:
                    return "infeasible"
                row[i] = True
                hit = True
            elif nf == neg_norm(a):
                if row.get(i) is True:
                    return "infeasible"
                row[i] = False
                hit = True
        if not hit and not (ignore is not None and ignore(f)):
            return None
    return row


def row_models(rows, n, feasible=None):
    """Total assignments over n atoms consistent with at least one partial row."""
    import itertools
    out = set()
    for bits in itertools.product([False, True], repeat=n):
        if feasible is not None and not feasible(bits):
            continue
        for r in rows:
            if all(bits[i] == v for i, v in r.items()):
                out.add(bits)
                break
    return out


def universe(n, pred, feasible=None):
    import itertools
    return {bits for bits in itertools.product([False, True], repeat=n)
            if (feasible is None or feasible(bits)) and pred(bits)}


# ---- loops that must visit every element ------------------------------------
def early_exits(body, lm):
    """Exit paths of an iterator-driven loop that leave it although next() yielded an item (break / return in the
    body): [path].  A loop that has to process every element of its source has none."""
    from ..paths import loop_paths
    out = []
    if lm.kind != "iter" or lm.none_block is None:
        return [[lm.header]]
    for kind, path in loop_paths(body, lm):
        if kind != "exit":
            continue
        if lm.none_block in path:
            continue
        out.append(path)
    return out


def check_visits_all(rule, body, lm, what):
    """Record a rule instance: the loop leaves only when its iterator is exhausted."""
    bad = early_exits(body, lm)
    site = site_of_block(body, bad[0][-2]) if bad and len(bad[0]) >= 2 else site_of_block(body, lm.header)
    rule.check(not bad, "visits-all", "%s is left only when its iterator is exhausted" % what, "no break / return in the loop body",
               "%s can be left before its iterator is exhausted (%d early exit path(s)): the remaining elements are never processed"
               % (what, len(bad)), site=site)

"""C15 - unfill inverts fill and recovers indents, width and line ending."""
from ..sym import sym_of, subterms
from ..engine import AnchorMissing, loop_models
from ..poly import poly, fact_nf, GT0, GE0, EQ0, NE0
from ..paths import loop_system, PathView, loop_state_vars, entry_value, contradictory
from ..describe import describe
from ..engines.schemas import range_parts, index_iter_base
from .. import lemmas
from .common import configs_for
from .util import Rule, guarded, site_of_block, check_visits_all
from . import models
from .C19 import _paths_to_return

TITLE = "unfill inverts fill and recovers indents, width and line ending"
TECHNIQUE = "index-provenance and constant rules on prefix detection, append-trace grammar of the joined text, finite-domain enumeration of the line-ending state machine, normal form of the width"
DESIGN_REF = "DESIGN.md 4.1 (S2/S3), 4.5, 4.4, 6/C15"
EXPLANATION = (
    "D: (R1) prefix = &line[..line.len() - line.trim_start_matches(P).len()] with P = {' ', '-', '+', '*', '>', '#', '/'}; "
    "every value assigned to the two indent options is that prefix or &prefix[..i] with i an offset of prefix.char_indices(): "
    "indents are prefixes of the lines they come from and consist of prefix characters; line 0 sets the initial indent, line 1 "
    "the subsequent indent. (R2) TRACE of the joined text over NonEmptyLines(text).enumerate(): item 0: "
    "push_str(&line[initial_indent.len()..]); item > 0: push(' '), push_str(&line[subsequent_indent.len()..]); after the loop at "
    "most push_str(ending). (R3) the (detected, ending) state machine, extracted as a table over {None, LF, CRLF}^2, equals: the "
    "first ending wins, CRLF is demoted by a later LF, nothing else changes; the reported ending is detected.unwrap_or(LF). "
    "(R4) width starts at 0 and becomes max(width, display_width(line)) for every line of text.lines(). (R5) narrowing of the "
    "subsequent indent only assigns &prefix[..idx] at the first mismatch with the current indent, or prefix when it is shorter. "
    "(R6) the final ending is appended iff one was detected and text.ends_with(it). "
    "T: the structural half of the statement (indents are prefixes made of prefix characters; no line break inside the result; "
    "CRLF exactly when every ending is CRLF). U (not applicable statically): the round trip unfill(fill(t)) = t, and the agreement "
    "of str::lines with NonEmptyLines on line boundaries (recorded as a TABLE entry of C04)."
)
ASSUMPTIONS = ["A-rustc", "A-std (str::lines, trim_start_matches, char_indices, zip)"]
LEVEL_TEXT = (
    "Decides the structural half of the statement on every path (what the indents can be, what is pushed into the joined text, "
    "the complete line-ending transition table, the width recurrence); the round trip with fill is a relation between two "
    "functions' runs and is not decided."
)
LEVEL_NOTE = "Trusted: rustc MIR, std iterators; the inverse relation with fill is a U-clause."

KEY = "crate::refill::unfill"
PCHARS = (0x20, 0x2d, 0x2b, 0x2a, 0x3e, 0x23, 0x2f)


def configs(tier):
    return configs_for(tier)


def _check(prog, rep):
    body = prog.need_body(KEY)
    s = sym_of(body)
    D = lambda t: describe(t, body)[:150]
    TEXT = ("param", 1, body.arg_names.get(1, "_1"))
    lms = [lm for lm in loop_models(prog, body) if lm.kind == "iter"]
    scan = join = None
    for lm in lms:
        src = lm.source
        if src is None or src[0] != "call" or src[1] != "Iterator::enumerate":
            continue
        inner = src[2][0]
        if inner == ("call", "str::lines", (TEXT,)):
            scan = lm
        elif inner[0] == "adt" and inner[1].endswith("NonEmptyLines") and inner[3][0][1] == TEXT:
            join = lm
    if scan is None or join is None:
        raise AnchorMissing("unfill: loops over text.lines().enumerate() and NonEmptyLines(text).enumerate() not found (%s)"
                            % [D(l.source) for l in lms if l.source])
    r1 = Rule(rep, "C15.R1", KEY, site=body.span)
    r4 = Rule(rep, "C15.R4", KEY, site=body.span)
    r5 = Rule(rep, "C15.R5", KEY, site=body.span)
    sv = loop_state_vars(body, scan, types=("usize", "&str"))
    byname = {n.split(".")[-1]: pk for pk, (n, ty) in sv.items()}
    for need in ("width", "initial_indent", "subsequent_indent"):
        if need not in byname:
            raise AnchorMissing("unfill: options.%s is not updated in the scan loop (found %s)" % (need, sorted(byname)))
    wpk, ipk, spk = byname["width"], byname["initial_indent"], byname["subsequent_indent"]
    idx, line = scan.item_proj(0), scan.item_proj(1)
    W = s.val_entry(wpk, scan.header)
    II = s.val_entry(ipk, scan.header)
    SI = s.val_entry(spk, scan.header)
    w0 = entry_value(prog, body, scan, wpk)
    r4.check(w0 == ("field", ("call", "crate::options::Options::new", (("int", 0),)), "width") or w0 == ("int", 0), "width-init",
             "the width starts at 0 (Options::new(0))", D(w0), "the detected width starts at %s" % D(w0))
    pc = ("tuple", tuple(("char", c) for c in PCHARS))
    wp = ("call", "str::trim_start_matches", (line, None))
    prefix = None
    cases = set()
    check_visits_all(r4, body, scan, "unfill's scan over text.lines()")
    for tr in loop_system(prog, body, scan, [wpk, ipk, spk], []):
        if tr.kind != "back":
            continue
        site = site_of_block(body, tr.path[-2])
        nw = tr.next[wpk]
        dwl = ("call", "crate::core::display_width", (line,))
        okw = nw[0] == "call" and nw[1] in ("std::cmp::max", "usize::max", "Ord::max") and set(nw[2]) == {W, dwl}
        if not okw:
            # the same value written as a conditional update: the larger of the two under this path's condition
            pn = {fact_nf(f) for f in tr.facts if f[0][0] == "cmp"}
            d = poly(dwl) - poly(W)
            if nw == dwl and (GT0(d) in pn or GE0(d) in pn):
                okw = True
            if nw == W and (GT0(-d) in pn or GE0(-d) in pn):
                okw = True
        r4.check(okw, "width-step", "width' = max(width, display_width(line))", D(nw),
                 "the detected width becomes %s; expected max(width, display_width(line))" % D(nw), site=site)
        nfs = [fact_nf(f) for f in tr.facts if f[0][0] == "cmp"]
        is0 = EQ0(poly(idx)) in nfs
        is1 = EQ0(poly(idx) - poly(("int", 1))) in nfs
        ni, ns = tr.next[ipk], tr.next[spk]
        # discover the prefix term from the idx == 0 transition
        if is0:
            cases.add(0)
            prefix = ni
            ok = ni[0] == "call" and ni[1] == "Index::index" and ni[2][0] == line
            kind, st_, en = range_parts(ni[2][1]) if ok else (None, None, None)
            okp = ok and kind == "to" and en[0] == "bin" and en[1] == "Sub" and en[2] == ("call", "str::len", (line,)) \
                and en[3][0] == "call" and en[3][1] == "str::len" and en[3][2][0][0] == "call" \
                and en[3][2][0][1] == "str::trim_start_matches" and en[3][2][0][2][0] == line
            r1.check(okp, "prefix-shape", "prefix = &line[..line.len() - line.trim_start_matches(P).len()]", D(ni),
                     "on line 0 the initial indent becomes %s; expected the prefix &line[..len - trim_start_matches(P).len()]" % D(ni), site=site)
            if okp:
                pat = en[3][2][0][2][1]
                got = set(x[1] for x in pat[1]) if pat[0] in ("tuple", "array") and all(x[0] == "char" for x in pat[1]) else None
                r1.check(got == set(PCHARS), "prefix-chars", "P = {' ', '-', '+', '*', '>', '#', '/'}", D(pat),
                         "the prefix character set is %s; expected {' ', '-', '+', '*', '>', '#', '/'}" % D(pat), site=site)
            r1.check(ns == SI, "line0-keeps-subsequent", "line 0 leaves the subsequent indent alone", "", "line 0 changes the subsequent indent to %s" % D(ns), site=site)
    for tr in loop_system(prog, body, scan, [wpk, ipk, spk], []):
        if tr.kind != "back":
            continue
        site = site_of_block(body, tr.path[-2])
        nfs = [fact_nf(f) for f in tr.facts if f[0][0] == "cmp"]
        is0 = EQ0(poly(idx)) in nfs
        is1 = EQ0(poly(idx) - poly(("int", 1))) in nfs
        ni, ns = tr.next[ipk], tr.next[spk]
        if is0:
            continue
        r1.check(ni == II, "initial-only-line0", "only line 0 sets the initial indent", "", "the initial indent changes to %s on a later line" % D(ni), site=site)
        if is1:
            cases.add(1)
            r1.check(prefix is not None and ns == prefix, "line1-subsequent", "line 1 sets the subsequent indent to its prefix", D(ns),
                     "on line 1 the subsequent indent becomes %s, expected that line's prefix" % D(ns), site=site)
            continue
        cases.add(2)
        # narrowing
        if ns == SI:
            # a later line may leave the indent alone only after comparing it char by char with the line's prefix
            # to the end (no mismatch) and finding the prefix not shorter: then the indent is a prefix of the line
            exhausted = any(a[0] == "variant" and a[2] == "None" and pol and a[1][0] == "callm" and a[1][1] == "Iterator::next"
                            and a[1] != scan.next_call for a, pol in tr.facts)
            notshorter = prefix is not None and GE0(poly(("call", "str::len", (prefix,))) - poly(("call", "str::len", (SI,)))) in nfs
            r5.check(exhausted and notshorter, "keep-needs-evidence",
                     "the subsequent indent is kept only if it matched the line's prefix to its end", "zip exhausted, prefix not shorter",
                     "on a later line the subsequent indent is left unchanged without having been compared with that line's prefix "
                     "(comparison exhausted: %s, prefix not shorter: %s): it need not be a prefix of the line, and unfill slices the "
                     "line at its length" % (exhausted, notshorter), site=site)
            continue
        if prefix is not None and ns == prefix:
            plen = poly(("call", "str::len", (prefix,)))
            from ..poly import Poly
            lt = False
            # the indent the prefix is compared with must be the indent as it is at that point of the path: the
            # narrowed slice &prefix[..i] if the char comparison found a mismatch on this path, else the old indent
            # (an earlier copy of the indent would undo the narrowing)
            mismatch = any(a[0] == "cmp" and a[1] == "Eq" and not pol and a[2][0] != "int" and a[3][0] != "int"
                           for a, pol in tr.facts)
            for k, p in nfs:
                if k != "ge0":
                    continue
                q = p + Poly.const(1) + plen      # canonical form of  len(X) - len(prefix) > 0
                if len(q.m) == 1:
                    (mon, c), = q.m.items()
                    if c == 1 and len(mon) == 1 and mon[0][0] == "call" and mon[0][1] == "str::len":
                        X = mon[0][2][0]
                        narrowed = X[0] == "call" and X[1] == "Index::index" and X[2][0] == prefix and range_parts(X[2][1])[0] == "to"
                        if (mismatch and narrowed) or (not mismatch and X == SI):
                            lt = True
            r5.check(lt, "shorter-prefix", "the whole prefix replaces the indent only when it is shorter", "prefix.len() < indent.len()",
                     "the subsequent indent is replaced by the line's prefix without prefix.len() < subsequent_indent.len() on the path", site=site)
            continue
        ok = prefix is not None and ns[0] == "call" and ns[1] == "Index::index" and ns[2][0] == prefix and range_parts(ns[2][1])[0] == "to"
        k = range_parts(ns[2][1])[2] if ok else None
        ib = index_iter_base(prog, body, k) if ok else None
        r5.check(ok and ib is not None and ib[0] == prefix, "narrow-shape", "narrowing assigns &prefix[..i] with i an offset of prefix.char_indices()",
                 D(ns), "the subsequent indent is narrowed to %s; expected &prefix[..i] at an offset of the prefix" % D(ns), site=site)
        mism = False
        for a, pol in tr.facts:
            if a[0] == "cmp" and a[1] == "Eq" and not pol:
                mism = True
        r5.check(mism, "narrow-at-mismatch", "narrowing happens at the first char that differs from the current indent", "x != y on the path",
                 "the subsequent indent is narrowed on a path without a failed x == y comparison", site=site)
    # the comparison of the prefix with the current indent stops at the first mismatch: the inner scan only
    # continues past a pair of equal chars (otherwise a later mismatch would re-grow the indent from a stale iterator)
    n_inner = 0
    for inner in lms:
        if inner is not scan and inner.blocks < scan.blocks:
            n_inner += 1
            # the comparison runs over (the line's prefix, the indent found so far): the indent as it enters this
            # iteration of the scan, not a value assigned earlier in the same iteration
            src_i = inner.source
            okz = False
            if src_i is not None and src_i[0] == "call" and src_i[1] == "Iterator::zip" and len(src_i[2]) == 2:
                a0, a1 = src_i[2]
                okz = prefix is not None and a0 == ("call", "str::char_indices", (prefix,)) and a1 == ("call", "str::chars", (SI,))
            r5.check(okz, "compare-with-current", "the char comparison zips the line's prefix with the subsequent indent found so far",
                     D(src_i) if src_i else "?", "the char comparison runs over %s; expected prefix.char_indices().zip(<subsequent indent as "
                     "found on the previous lines>.chars())" % (D(src_i) if src_i else "?"), site=site_of_block(body, inner.header))
            for tr in loop_system(prog, body, inner, [], []):
                if tr.kind != "back":
                    continue
                good = any(a[0] == "cmp" and a[1] == "Eq" and pol for a, pol in tr.facts)
                r5.check(good, "scan-continues", "the prefix comparison continues only past equal chars", "back edge condition: x == y",
                         "the comparison of a line's prefix with the current subsequent indent continues after a mismatch: a later "
                         "mismatch re-assigns the indent from the stale iterator and it is no longer a common prefix",
                         site=site_of_block(body, inner.header))
    r5.check(n_inner == 1, "one-inner-scan", "one prefix comparison loop inside the scan", str(n_inner),
             "expected one char comparison loop inside the scan loop, found %d" % n_inner, nontrivial=False)
    r1.check(cases == {0, 1, 2}, "line-cases", "lines 0, 1 and later are distinguished", str(cases),
             "the scan does not distinguish line 0, line 1 and later lines (%s)" % sorted(cases), nontrivial=False)

    # ---- R2 / R3 on the join loop
    r2 = Rule(rep, "C15.R2", KEY, site=body.span)
    r3 = Rule(rep, "C15.R3", KEY, site=body.span)
    res_roots = set()
    for b in join.blocks:
        if body.blocks[b]["term"]["k"] == "call" and body.callee(b).name in ("String::push", "String::push_str"):
            for r_ in s.mut_calls().get(b, ()):
                res_roots.add(r_)
    if len(res_roots) != 1:
        raise AnchorMissing("unfill: expected one string built in the join loop")
    res = next(iter(res_roots))
    dsv = [pk for pk, (n, ty) in loop_state_vars(body, join, types=("std::option::Option<line_ending::LineEnding>",)).items()]
    if len(dsv) != 1:
        raise AnchorMissing("unfill: detected line ending state not found")
    dpk = dsv[0]
    DET = s.val_entry(dpk, join.header)
    d0 = entry_value(prog, body, join, dpk)
    r3.check(d0 == ("adt", "std::option::Option", "None", ()), "detected-init", "no ending is detected initially", D(d0),
             "the detected ending starts as %s" % D(d0))
    jidx = join.item_proj(0)
    jline = ("field", join.item_proj(1), "0")
    jend = ("field", join.item_proj(1), "1")
    II_end = prog.simp(s.val(ipk, join.header, 0), body)
    SI_end = prog.simp(s.val(spk, join.header, 0), body)
    table = []
    kinds = set()
    check_visits_all(r2, body, join, "unfill's join loop over the non-empty lines")
    for tr in loop_system(prog, body, join, [dpk], [res]):
        if tr.kind != "back":
            continue
        site = site_of_block(body, tr.path[-2])
        nfs = [fact_nf(f) for f in tr.facts if f[0][0] == "cmp"]
        first = EQ0(poly(jidx)) in nfs
        evs = [(n, a[1]) for (_b, n, a, _r) in tr.events]
        ind = II_end if first else SI_end
        sl = ("call", "Index::index", (jline, ("adt", "std::ops::RangeFrom", "RangeFrom", (("start", ("call", "str::len", (ind,))),))))
        exp = ([] if first else [("String::push", ("char", 0x20))]) + [("String::push_str", sl)]
        kinds.add(first)
        r2.check(evs == exp, "trace:%s" % ("first" if first else "later"), "%s line: %s" % ("first" if first else "later", [(n.split("::")[-1], D(a)) for n, a in exp]),
                 "trace matches", "for %s the joined text receives %s; expected %s" % (
                     "the first line" if first else "a later line", [(n.split("::")[-1], D(a)) for n, a in evs], [(n.split("::")[-1], D(a)) for n, a in exp]), site=site)
        # state machine entry: which (detected, ending) pairs can take this path
        ALLV = {"None", "LF", "CRLF"}
        dset, eset = set(ALLV), set(ALLV)

        def refine(cur, which, pol):
            """keep the values compatible with `value is <which>` having truth pol (which: None / Some / LF / CRLF)"""
            sel = {"None": {"None"}, "Some": {"LF", "CRLF"}, "LF": {"LF"}, "CRLF": {"CRLF"}}[which]
            return cur & sel if pol else cur - sel

        def le_const(t):
            """None / LF / CRLF if t is that Option<LineEnding> or LineEnding constant"""
            if t[0] == "adt" and t[1].endswith("Option"):
                if t[2] == "None":
                    return "None"
                inner = t[3][0][1] if t[3] else None
                return le_const(inner) if inner is not None else None
            if t[0] == "adt" and t[1].endswith("LineEnding") and t[2] in ("LF", "CRLF"):
                return t[2]
            return None
        DETP = ("field", ("as", DET, "Some"), "0")
        ENDP = ("field", ("as", jend, "Some"), "0")
        for a, pol in tr.facts:
            if a[0] == "variant":
                if a[1] == DET and a[2] in ("None", "Some"):
                    dset = refine(dset, a[2], pol)
                elif a[1] == DETP and a[2] in ("LF", "CRLF"):
                    dset = refine(dset, a[2], pol) if pol else dset - {a[2]}
                elif a[1] == jend and a[2] in ("None", "Some"):
                    eset = refine(eset, a[2], pol)
                elif a[1] == ENDP and a[2] in ("LF", "CRLF"):
                    eset = refine(eset, a[2], pol) if pol else eset - {a[2]}
            elif a[0] == "b" and a[1][0] == "call":
                n, args = a[1][1], a[1][2]
                if n in ("Option::is_none", "Option::is_some") and len(args) == 1 and args[0] in (DET, jend):
                    which = "None" if n == "Option::is_none" else "Some"
                    if args[0] == DET:
                        dset = refine(dset, which, pol)
                    else:
                        eset = refine(eset, which, pol)
                elif (n in ("PartialEq::eq",) or n.endswith(" as std::cmp::PartialEq>::eq")) and len(args) == 2:
                    for x, c in (args, args[::-1]):
                        k = le_const(c)
                        if k is None:
                            continue
                        if x == DET:
                            dset = refine(dset, k, pol)
                        elif x == DETP:
                            dset = (dset & {k}) if pol else dset - {k}
                        elif x == jend:
                            eset = refine(eset, k, pol)
                        elif x == ENDP:
                            eset = (eset & {k}) if pol else eset - {k}
        nxt = tr.next[dpk]
        out = "same" if nxt == DET else "ending" if nxt == jend else "other:" + D(nxt)
        table.append((frozenset(dset), frozenset(eset), out))
    r2.check(kinds == {True, False}, "cases", "first and later lines are distinguished", str(kinds), "the join does not distinguish the first line", nontrivial=False)

    def lookup(d, e):
        """outcomes for concrete (detected, ending) in {None, LF, CRLF}."""
        return {o for ds, es, o in table if d in ds and e in es}
    for d in ("None", "LF", "CRLF"):
        for e in ("None", "LF", "CRLF"):
            want = "ending" if (d == "None" and e != "None") or (d == "CRLF" and e == "LF") else "same"
            got = lookup(d, e)
            r3.check(got == {want}, "table:%s,%s" % (d, e), "(detected=%s, ending=%s) -> %s" % (d, e, "take the ending" if want == "ending" else "unchanged"),
                     "extracted transition table", "for detected=%s and ending=%s the detected ending becomes %s; expected %s (first ending wins, "
                     "CRLF is demoted by a later LF, nothing else changes)" % (d, e, sorted(got), want))
    # ---- tail: R6 and the returned options
    r6 = Rule(rep, "C15.R6", KEY, site=body.span)
    seen = set()
    for e in [b for a, b in join.lp["exits"]]:
        for path in _paths_to_return(body, e):
            pv = PathView(prog, body, path)
            facts = pv.facts()
            if contradictory(facts):
                continue
            evs = [(n, a[1]) for (_b, n, a, _r) in pv.events([res])]
            det = None
            ew = None
            for a, pol in facts:
                if a[0] == "variant" and a[1][0] == "phi" and a[1][2] == dpk and pol:
                    det = a[2]
                if a[0] == "b" and a[1][0] == "call" and a[1][1] == "str::ends_with" and a[1][2][0] == TEXT:
                    ew = pol
                    ewarg = a[1][2][1]
            should = det == "Some" and ew is True
            seen.add(should)
            if should:
                okk = len(evs) == 1 and evs[0][0] == "String::push_str" and evs[0][1] == ewarg and ewarg[0] == "call" \
                    and ewarg[1] == "crate::line_ending::LineEnding::as_str"
                r6.check(okk, "append-ending", "the detected ending is re-appended when the text ends with it", D(evs[0][1]) if evs else "",
                         "when an ending was detected and text ends with it the joined text receives %s" % [(n, D(a)) for n, a in evs])
            else:
                r6.check(not evs, "no-append", "otherwise nothing is appended", "", "the joined text receives %s although no ending was detected or the "
                         "text does not end with it" % [(n, D(a)) for n, a in evs])
    r6.check(True in seen and False in seen, "cases", "both tail cases exist", str(seen), "the final ending is not conditional", nontrivial=False)
    # reported line ending
    ret = prog.simp(s.val((0, ()), body.cfg.returns[0], "term"), body)
    okr = False
    if ret[0] == "tuple" and len(ret[1]) == 2:
        o = ret[1][1]
        le = None
        while o[0] == "update":
            if len(o[2]) == 1 and o[2][0][2] == "line_ending":
                le = le or o[3]
            o = o[1]
        okr = le is not None and le[0] == "call" and le[1] == "Option::unwrap_or" and le[2][1] == ("adt", "line_ending::LineEnding", "LF", ())
    r3.check(okr, "reported-ending", "the reported ending is detected.unwrap_or(LF)", "", "the returned options' line_ending is not detected.unwrap_or(LineEnding::LF)")


NEL = "crate::<line_ending::NonEmptyLines as std::iter::Iterator>::next"


def _non_empty_lines(prog, rep):
    """R7: NonEmptyLines::next skips exactly the empty lines ("\n" and "\r\n"), yields every other line without its
    ending together with the ending found, advances past the '\n', and yields an unterminated rest once."""
    from .util import truth_row, row_models, universe
    from ..idioms import empty_fact
    body = prog.need_body(NEL)
    s = sym_of(body)
    r = Rule(rep, "C15.R7", NEL, site=body.span)
    D = lambda t: describe(t, body)[:140]
    loops = loop_models(prog, body)
    if len(loops) != 1:
        raise AnchorMissing("NonEmptyLines::next: expected one loop (found %d)" % len(loops))
    lm = loops[0]
    spk = (1, ("deref", ("f", 0, "0")))
    S = s.val_entry(spk, lm.header)
    if S[0] != "phi":
        # the field may be keyed differently: take the str-typed place assigned in the loop
        cands = [pk for pk, (n, ty) in loop_state_vars(body, lm, types=("&str", "&'a str")).items()]
        if len(cands) != 1:
            raise AnchorMissing("NonEmptyLines::next: the remaining-text state is not recognised")
        spk = cands[0]
        S = s.val_entry(spk, lm.header)
    find = ("call", "str::find", (S, ("char", 10)))
    LFI = ("field", ("as", find, "Some"), "0")
    byte = ("index", ("call", "str::as_bytes", (S,)), ("bin", "Sub", LFI, ("int", 1)))
    atoms = [(("cmp", "Eq", ("int", 0), LFI), True), (("cmp", "Eq", ("int", 1), LFI), True), (("cmp", "Eq", ("int", 13), byte), True)]
    # canonical orientation of the atoms as pred.cmp_fact would produce them
    from ..pred import cmp_fact
    atoms = [cmp_fact("Eq", a[0][2], a[0][3]) for a in atoms]
    # a fourth, derived atom: self.0.starts_with("\r\n") holds exactly when lf == 1 and the byte before it is '\r'
    # (lf is the offset of the first '\n')
    atoms.append((("b", ("call", "str::starts_with", (S, ("str", "\r\n")))), True))
    feasible = lambda b: not (b[0] and b[1]) and (b[3] == (b[1] and b[2]))
    skip = lambda b: b[0] or (b[1] and b[2])
    rest = ("call", "Index::index", (S, ("adt", "std::ops::RangeFrom", "RangeFrom", (("start", ("bin", "Add", LFI, ("int", 1))),))))
    is_find_variant = lambda f: f[0][0] == "variant" and f[0][1] == find
    back_rows, yield_rows = [], []
    ok_rows = True
    line_upto_lf = ("call", "Index::index", (S, ("adt", "std::ops::RangeTo", "RangeTo", (("end", LFI),))))

    def norm_slice(t, depth=0):
        """len(&s[..e]) is e and s[..a][..b] is s[..b] (only used inside this rule)."""
        if not isinstance(t, tuple) or not t or depth > 40:
            return t
        t = tuple(norm_slice(x, depth + 1) if isinstance(x, tuple) else x for x in t)
        if t[0] == "call" and t[1] in ("str::len", "String::len") and len(t[2]) == 1:
            a = t[2][0]
            if a[0] == "call" and a[1] == "Index::index" and range_parts(a[2][1])[0] == "to":
                return range_parts(a[2][1])[2]
        if t[0] == "call" and t[1] == "Index::index" and len(t[2]) == 2 and range_parts(t[2][1])[0] == "to":
            a = t[2][0]
            if a[0] == "call" and a[1] == "Index::index" and range_parts(a[2][1])[0] == "to":
                return ("call", "Index::index", (a[2][0], t[2][1]))
        return t

    def norm_facts(facts):
        """`self.0[..lf].ends_with('\\r')` (also through strip_suffix) is the test of the byte before the line feed."""
        out = []
        for a, pol in facts:
            if a[0] == "b" and a[1][0] == "call" and a[1][1] == "str::ends_with" and a[1][2] == (line_upto_lf, ("char", 13)):
                out.append((atoms[2][0], pol))
            else:
                out.append((a, pol))
        return out

    def describe_facts(facts):
        return [(a[1], D(a[2]), D(a[3]), p) if a[0] == "cmp" else (a[0], p) for a, p in facts][:4]
    # continuing paths (skips) from the loop's transition system
    for tr in loop_system(prog, body, lm, [spk], []):
        if tr.kind != "back":
            continue
        found = any(a[0] == "variant" and a[1] == find and ((a[2] == "Some") == pol) for a, pol in tr.facts)
        site = site_of_block(body, tr.path[-2])
        r.check(found, "loop-cond", "the loop continues only while a '\\n' is found", "", 
                "NonEmptyLines::next goes round its loop without having found a line feed", site=site)
        row = truth_row(norm_facts(tr.facts), atoms, ignore=is_find_variant)
        if row == "infeasible":
            continue
        if row is None:
            ok_rows = False
            r.check(False, "cond", "", "", "NonEmptyLines::next skips a line on a condition other than lf == 0, lf == 1 and the byte "
                    "before the line feed being '\\r': %s" % describe_facts(tr.facts), site=site)
            continue
        nxt = tr.next[spk]
        r.check(poly_eq_term(nxt, rest), "advance", "a skipped line is removed: self.0 := self.0[lf + 1..]", D(nxt),
                "after skipping a line the remaining text becomes %s; expected &self.0[lf + 1..]" % D(nxt), site=site)
        back_rows.append(row)
    # returning paths: a yielded line (line feed found) or the rest (none found)
    from ..paths import fn_paths
    seen = set()
    for path in fn_paths(body):
        pv = PathView(prog, body, path, keep_headers=True)
        facts = pv.facts()
        if contradictory(facts):
            continue
        ret = pv.value_before_term((0, ()), path[-1])
        fin = pv.value_before_term(spk, path[-1])
        found = None
        for a, pol in facts:
            if a[0] == "variant" and a[1] == find:
                found = ((a[2] == "Some") == pol)
        site = site_of_block(body, path[-2]) if len(path) > 1 else body.span
        if found is None:
            r.check(False, "find", "", "", "a path through NonEmptyLines::next does not search self.0 for '\\n'", site=site)
            continue
        if found:
            row = truth_row(norm_facts(facts), atoms, ignore=is_find_variant)
            if row == "infeasible":
                continue
            if row is None:
                ok_rows = False
                r.check(False, "cond", "", "", "NonEmptyLines::next yields a line on a condition other than lf == 0, lf == 1 and the "
                        "byte before the line feed being '\\r': %s" % describe_facts(facts), site=site)
                continue
            yield_rows.append(row)
            r.check(poly_eq_term(fin, rest), "advance", "a yielded line is removed: self.0 := self.0[lf + 1..]", D(fin),
                    "after yielding a line the remaining text becomes %s; expected &self.0[lf + 1..]" % D(fin), site=site)
            crlf = row.get(2)
            end = ("bin", "Sub", LFI, ("int", 1)) if crlf else LFI
            want_line = ("call", "Index::index", (S, ("adt", "std::ops::RangeTo", "RangeTo", (("end", end),))))
            want_end = ("adt", "std::option::Option", "Some", (("0", ("adt", "line_ending::LineEnding", "CRLF" if crlf else "LF", ())),))
            okr = crlf is not None and ret[0] == "adt" and ret[2] == "Some" and ret[3][0][1][0] == "tuple" \
                and len(ret[3][0][1][1]) == 2 and poly_eq_term(norm_slice(ret[3][0][1][1][0]), want_line) and ret[3][0][1][1][1] == want_end
            r.check(okr, "yield", "a line ending in %s is yielded without it, tagged %s" % (
                "\\r\\n" if crlf else "\\n", "CRLF" if crlf else "LF"), D(ret),
                "NonEmptyLines::next yields %s for a line whose byte before the line feed %s '\\r'; expected (%s, Some(%s))" % (
                    D(ret), "is" if crlf else "is not", D(want_line), "CRLF" if crlf else "LF"), site=site)
        else:
            emp = None
            for f in facts:
                ef = empty_fact(f, S)
                if ef is not None:
                    emp = ef
            if emp is None:
                r.check(False, "rest-branch", "", "", "with no line feed left NonEmptyLines::next does not test whether self.0 is empty", site=site)
                continue
            seen.add(emp)
            if emp:
                r.check(ret == ("adt", "std::option::Option", "None", ()), "rest-empty", "nothing left: None", D(ret),
                        "with no text left NonEmptyLines::next returns %s" % D(ret), site=site)
            else:
                okt = ret[0] == "adt" and ret[2] == "Some" and ret[3][0][1][0] == "tuple" and len(ret[3][0][1][1]) == 2 \
                    and ret[3][0][1][1][0][0] == "callm" and ret[3][0][1][1][0][1] == "std::mem::take" \
                    and ret[3][0][1][1][1] == ("adt", "std::option::Option", "None", ())
                r.check(okt, "rest", "an unterminated rest is yielded once, with no ending, and the state is emptied", D(ret),
                        "for an unterminated rest NonEmptyLines::next returns %s; expected (take(&mut self.0), None)" % D(ret), site=site)
    if ok_rows:
        got_b = row_models(back_rows, 4, feasible)
        got_y = row_models(yield_rows, 4, feasible)
        r.check(got_b == universe(4, skip, feasible), "skip-cond", "a line is skipped exactly when lf == 0 || (lf == 1 && byte before is '\\r')",
                "truth table %s" % sorted(got_b), "NonEmptyLines::next skips a line for the cases %s of (lf == 0, lf == 1, previous byte == '\\r'); "
                "expected exactly the empty lines \"\\n\" and \"\\r\\n\"" % sorted(got_b))
        r.check(got_y == universe(4, lambda b: not skip(b), feasible), "yield-cond", "every other line is yielded", "truth table %s" % sorted(got_y),
                "NonEmptyLines::next yields a line for the cases %s of (lf == 0, lf == 1, previous byte == '\\r'); expected the complement of "
                "the skip condition" % sorted(got_y))
    r.check(seen == {True, False}, "rest-cases", "the rest is conditional on self.0.is_empty()", str(seen),
            "the code after the loop does not distinguish an empty rest from an unterminated last line", nontrivial=False)


def poly_eq_term(a, b):
    """Equal up to the arithmetic normal form of the index expressions inside a slice."""
    if a == b:
        return True
    if not (isinstance(a, tuple) and isinstance(b, tuple)) or len(a) != len(b) or a[0] != b[0]:
        return False
    if a[0] in ("bin", "int"):
        return poly(a) == poly(b)
    return all(poly_eq_term(x, y) if isinstance(x, tuple) and isinstance(y, tuple) else x == y for x, y in zip(a, b))


def run(prog, rep):
    guarded(rep, "C15.R1", KEY, lambda: _check(prog, rep))
    guarded(rep, "C15.R7", NEL, lambda: _non_empty_lines(prog, rep))


def _mk(rule):
    def f(prog):
        from ..engine import Report
        rep = Report("C15")
        rep.set_config(prog.config)
        run(prog, rep)
        return not any(v.rule == rule for v in rep.violations)
    return f


lemmas.register("C15.R1", _mk("C15.R1"))
lemmas.register("C15.R5", _mk("C15.R5"))


def _lemma_all(prog):
    from ..engine import Report
    rep = Report("C15")
    rep.set_config(prog.config)
    run(prog, rep)
    return not rep.violations


lemmas.register("C15", _lemma_all)


def _lemma_r7(prog):
    from ..engine import Report
    rep = Report("C15")
    rep.set_config(prog.config)
    guarded(rep, "C15.R7", NEL, lambda: _non_empty_lines(prog, rep))
    return not rep.violations


lemmas.register("C15.R7", _lemma_r7)

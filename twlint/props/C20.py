"""C20 - wrap_columns lays text out in aligned columns, column-major, never failing."""
from ..sym import sym_of
from ..engine import AnchorMissing, loop_models
from ..poly import poly, fact_nf, cmp_nf, GT0, GE0, EQ0, NE0
from ..paths import loop_system, PathView, loop_paths
from ..describe import describe
from ..engines.ledger import enumerate_obligations, discharge, cut_describe
from ..engines.schemas import range_parts
from ..tables.ledger_table import T as TABLE
from .. import lemmas
from .common import configs_for
from .util import Rule, guarded, site_of_block, check_visits_all
from . import models

TITLE = "wrap_columns lays text out in aligned columns, column-major, never failing"
TECHNIQUE = "panic ledger restricted to wrap_columns + append-trace grammar of the row string + normal forms of the width arithmetic"
DESIGN_REF = "DESIGN.md 4.1, 4.5, 4.4, 6/C20"
EXPLANATION = (
    "D: (R1) every panic obligation in wrap_columns other than the documented assert!(columns > 0) is discharged by a LEDGER "
    "schema (in particular the cell padding must be saturating). (R2) the append trace of the row string equals the grammar "
    "String::from(left_gap), then per column (cell, pad(cell)) or pad_full, then last_padding iff column_no == columns-1 else "
    "middle_gap, then right_gap after the column loop, then lines.push(row); the result vector is only pushed to. (R3) the "
    "cell shown at (line_no, column_no) is wrapped_lines.get(line_no + column_no*lines_per_column) with lines_per_column = "
    "L/columns + (L % columns > 0); the loops range over 0..lines_per_column and 0..columns. (R4) inner = width (-) "
    "dw(left) (-) dw(right) (-) dw(middle)*(columns-1) with saturating subtraction, column_width = max(inner/columns, 1), "
    "last_padding = inner % column_width spaces, options.width := column_width before wrap(text, options). (R5) pad(cell) = "
    "column_width (-) display_width(cell) spaces, pad_full = column_width spaces. "
    "T: row shape, column-major reading, equal row widths when no cell protrudes, protrusion instead of failure. "
    "U: display width of the assembled row relies on C10 additivity (paper)."
    " (R7) same rule as C05.R5; the hyphen splitter and the ASCII-space separator are genuine findings recorded in KNOWN_FINDINGS.txt (a cell ending inside a sequence swallows its padding)."
)
ASSUMPTIONS = ["A-rustc", "A-std", "A-mem (padding strings near usize::MAX cannot be allocated)"]
LEVEL_TEXT = (
    "Decides, for all inputs, that wrap_columns has no reachable panic besides the documented zero-columns assertion, and "
    "that the row construction and width arithmetic are exactly the documented ones (as normal forms and as an append-trace "
    "grammar over the row string); the row-width equality itself is derived on paper from these."
)
LEVEL_NOTE = "Trusted: rustc MIR, std String/Vec semantics, A-mem; display-width additivity is proved for C10 separately."

KEY = "crate::columns::wrap_columns"


def configs(tier):
    return configs_for(tier)


def _ledger(prog, rep):
    body = prog.need_body(KEY)
    lemmas.load_all()
    n = 0
    for o in enumerate_obligations(prog, [body]):
        r = discharge(prog, o, TABLE)
        n += 1
        if r is None:
            rep.violation("C20.R1", KEY, "%s|%s" % (o.kind, o.extra.get("cut_shape", o.shape)), o.site,
                          "wrap_columns can fail here: undischarged %s obligation `%s`" % (o.kind, cut_describe(prog, o)[:200]))
        else:
            schema, note = r
            how = ("TABLE: " + note["why"]) if schema == "TABLE" else "%s: %s" % (schema, note)
            rep.ok("C20.R1", KEY, "%s: %s" % (o.kind, cut_describe(prog, o)[:200]), how, site=o.site,
                   nontrivial=schema not in ("A-MEM", "CONST-FOLD"))
    if n < 12:
        rep.violation("C20.R1", KEY, "floor", KEY, "only %d panic obligations seen in wrap_columns (floor 12)" % n)


def ssub_chain(t):
    """Flatten nested usize::saturating_sub: (base, [subtrahends])."""
    subs = []
    while t[0] == "call" and t[1] == "usize::saturating_sub" and len(t[2]) == 2:
        subs.append(t[2][1])
        t = t[2][0]
    return t, subs


def _model(prog):
    body = prog.need_body(KEY)
    s = sym_of(body)
    m = models.Model(body=body)
    P = lambda i: ("param", i, body.arg_names.get(i, "_%d" % i))
    m.text, m.columns, m.opt, m.left, m.middle, m.right = (P(i) for i in range(1, 7))
    wrapb = [b for b, t, c in body.calls() if c.name == "crate::wrap::wrap"]
    if len(wrapb) != 1:
        raise AnchorMissing("wrap_columns: expected exactly one call to wrap (found %d)" % len(wrapb))
    m.wrap_block = wrapb[0]
    m.wrap_call = prog.simp(s.call_term(wrapb[0]), body)
    lms = [lm for lm in loop_models(prog, body) if lm.kind == "iter"]
    outer = inner = None
    for lm in lms:
        others = [o for o in lms if o is not lm and o.blocks < lm.blocks]
        if others:
            outer = lm
            inner = others[0]
    if outer is None or inner is None:
        raise AnchorMissing("wrap_columns: nested row/column loops not found")
    m.outer, m.inner = outer, inner
    m.acc = models.returned_vec_root(prog, body)
    # the row string: root of the push_str events in the inner loop
    roots = set()
    for b, roots_ in s.mut_calls().items():
        if b in inner.blocks and body.callee(b).name in ("String::push_str", "String::push"):
            for r in roots_:
                roots.add(r)
    if len(roots) != 1:
        raise AnchorMissing("wrap_columns: expected one row string appended to in the column loop")
    m.row = next(iter(roots))
    return m


def _widths(prog, rep, m):
    body = m.body
    r = Rule(rep, "C20.R4", KEY, site=site_of_block(body, m.wrap_block))
    D = lambda t: describe(t, body)[:160]
    wc = m.wrap_call
    dw = lambda x: ("call", "crate::core::display_width", (x,))
    opt0 = ("call", "Into::into", (m.opt,))
    ok = wc[2][0] == m.text and wc[2][1][0] == "update" and wc[2][1][1] == opt0 and \
        len(wc[2][1][2]) == 1 and wc[2][1][2][0][2] == "width"
    r.check(ok, "wrap-args", "wrap(text, options with width := column_width)", D(wc),
            "wrap is not called with the text parameter and the caller's options with only `width` replaced: %s" % D(wc))
    if not ok:
        return None
    cw = wc[2][1][3]
    okcw = cw[0] == "call" and cw[1] in ("std::cmp::max", "usize::max", "Ord::max") and ("int", 1) in cw[2]
    div = None
    if okcw:
        div = [a for a in cw[2] if a != ("int", 1)]
        div = div[0] if div else None
    okdiv = div is not None and div[0] == "bin" and div[1] == "Div" and div[3] == m.columns
    r.check(okcw and okdiv, "column-width", "column_width = max(inner / columns, 1)", D(cw),
            "column width is %s, expected max(inner_width / columns, 1)" % D(cw))
    if not (okcw and okdiv):
        return None
    iw = div[2]
    base, subs = ssub_chain(iw)
    want = sorted([dw(m.left), dw(m.right), ("bin", "Mul", dw(m.middle), ("bin", "Sub", m.columns, ("int", 1)))], key=repr)
    got = sorted(subs, key=repr)
    # allow the product in either operand order
    got_n = sorted([("bin", "Mul",) + tuple(sorted([x[2], x[3]], key=repr)) if x[0] == "bin" and x[1] == "Mul" else x for x in got], key=repr)
    want_n = sorted([("bin", "Mul",) + tuple(sorted([x[2], x[3]], key=repr)) if x[0] == "bin" and x[1] == "Mul" else x for x in want], key=repr)
    r.check(base == ("field", opt0, "width") and got_n == want_n, "inner-width",
            "inner = width (-) dw(left) (-) dw(right) (-) dw(middle)*(columns-1), all saturating", D(iw),
            "inner width is %s; expected options.width saturating-minus display_width(left_gap), display_width(right_gap) and "
            "display_width(middle_gap)*(columns-1)" % D(iw))
    return cw, iw


def _index(prog, rep, m, cw):
    body = m.body
    r = Rule(rep, "C20.R3", KEY, site=body.span)
    D = lambda t: describe(t, body)[:160]
    WL = m.wrap_call
    L = ("call", "Vec::len", (WL,))
    lpc_want = poly(("bin", "Div", L, m.columns)) + poly(prog.simp(("cast", "IntToInt", ("bin", "Gt", ("bin", "Rem", L, m.columns), ("int", 0)), "usize"), body))
    kind, st, en = range_parts(m.outer.source) if m.outer.source[0] == "adt" else (None, None, None)
    r.check(kind == "range" and st == ("int", 0) and poly(en) == lpc_want, "rows",
            "rows range over 0..(L/columns + (L % columns > 0))", D(m.outer.source),
            "the row loop ranges over %s; expected 0..lines_per_column with lines_per_column = len/columns + (len %% columns > 0)"
            % D(m.outer.source))
    lpc = en
    kind2, st2, en2 = range_parts(m.inner.source) if m.inner.source[0] == "adt" else (None, None, None)
    r.check(kind2 == "range" and st2 == ("int", 0) and en2 == m.columns, "columns",
            "columns range over 0..columns", D(m.inner.source), "the column loop ranges over %s, expected 0..columns" % D(m.inner.source))
    line_no = m.outer.item
    col_no = m.inner.item
    # the get() call in the inner loop
    s = sym_of(body)
    gets = [b for b in m.inner.blocks if body.blocks[b]["term"]["k"] == "call" and body.callee(b).name == "[]::get"]
    if len(gets) != 1:
        r.check(False, "cell-lookup", "", "", "expected exactly one wrapped_lines.get(..) in the column loop (found %d)" % len(gets))
        return None
    ga = [prog.simp(a, body) for a in s.call_args(gets[0])]
    want_idx = poly(line_no) + poly(col_no) * poly(lpc)
    r.check(ga[0] == WL and poly(ga[1]) == want_idx, "cell-index",
            "cell = wrapped_lines.get(line_no + column_no * lines_per_column)", D(ga[1]),
            "the cell is looked up at %s of %s; expected line_no + column_no*lines_per_column of wrap's result (column-major)"
            % (D(ga[1]), D(ga[0])[:60]), site=site_of_block(body, gets[0]))
    return ("call", "[]::get", (WL, ga[1])), lpc


def _row(prog, rep, m, cw, iw, getcall):
    body = m.body
    s = sym_of(body)
    r = Rule(rep, "C20.R2", KEY, site=body.span)
    r5 = Rule(rep, "C20.R5", KEY, site=body.span)
    D = lambda t: describe(t, body)[:140]
    col_no = m.inner.item
    rep_ = lambda n: ("call", "str::repeat", (("str", " "), n))
    dw = lambda x: ("call", "crate::core::display_width", (x,))
    cell = ("field", ("as", getcall, "Some"), "0")
    check_visits_all(r5, body, m.inner, "the column loop of wrap_columns")
    check_visits_all(r5, body, m.outer, "the row loop of wrap_columns")
    trans = loop_system(prog, body, m.inner, [], [m.row])
    last_pad = rep_(("bin", "Rem", iw, cw))
    seen = {"some": 0, "none": 0, "last": 0, "mid": 0}
    for tr in trans:
        if tr.kind != "back":
            continue
        evs = [(n, a[1]) for (_b, n, a, _r) in tr.events]
        site = site_of_block(body, tr.events[0][0]) if tr.events else body.span
        if any(n != "String::push_str" for n, _ in evs):
            r.check(False, "row-mutator", "", "", "the row string is modified by %s in the column loop" % [n for n, _ in evs], site=site)
            continue
        vals = [a for _, a in evs]
        is_some = any(pol and a[0] == "variant" and a[1] == getcall and a[2] == "Some" for a, pol in tr.facts)
        is_none = any(pol and a[0] == "variant" and a[1] == getcall and a[2] == "None" for a, pol in tr.facts)
        nfs = [fact_nf(f) for f in tr.facts if f[0][0] == "cmp"]
        lastc = cmp_nf("Eq", col_no, ("bin", "Sub", m.columns, ("int", 1)))
        is_last = lastc in nfs
        is_notlast = NE0(lastc[1]) in nfs
        # column_no ranges over 0..columns, so `column_no + 1 < columns` is `column_no != columns - 1` and its negation
        # is `column_no == columns - 1`
        dcol = poly(m.columns) - poly(col_no)
        if GT0(dcol - poly(("int", 1))) in nfs:
            is_notlast = True
        if GE0(poly(("int", 1)) - dcol) in nfs:
            is_last = True
        if is_some:
            seen["some"] += 1
            okc = len(vals) >= 2 and vals[0] == cell
            r.check(okc, "cell-text", "a present cell is appended unchanged", D(vals[0]) if vals else "",
                    "for a present cell the row first receives %s, expected the cell text" % (D(vals[0]) if vals else "nothing"), site=site)
            pad = vals[1] if len(vals) >= 2 else None
            r5.check(pad == rep_(("call", "usize::saturating_sub", (cw, dw(cell)))), "cell-pad",
                     "pad(cell) = column_width (-) display_width(cell) spaces", D(pad) if pad else "",
                     "the padding after a cell is %s; expected \" \".repeat(column_width.saturating_sub(display_width(cell)))"
                     % (D(pad) if pad else "missing"), site=site)
            rest = vals[2:]
        elif is_none:
            seen["none"] += 1
            r5.check(len(vals) >= 1 and vals[0] == rep_(cw), "empty-pad", "an absent cell is column_width spaces",
                     D(vals[0]) if vals else "", "an absent cell appends %s, expected \" \".repeat(column_width)"
                     % (D(vals[0]) if vals else "nothing"), site=site)
            rest = vals[1:]
        else:
            r.check(False, "cell-branch", "", "", "a path through the column loop does not branch on wrapped_lines.get(..)", site=site)
            continue
        if is_last:
            seen["last"] += 1
            r.check(rest == [last_pad], "last-column", "the last column is followed by inner % column_width spaces",
                    D(rest[0]) if rest else "", "after the last column the row receives %s; expected only the remainder padding "
                    "\" \".repeat(inner_width %% column_width)" % [D(x) for x in rest], site=site)
        elif is_notlast:
            seen["mid"] += 1
            r.check(rest == [m.middle], "middle-gap", "other columns are followed by the middle gap", "push_str(middle_gap)",
                    "after a non-final column the row receives %s, expected only middle_gap" % [D(x) for x in rest], site=site)
        else:
            r.check(False, "gap-branch", "", "", "a path through the column loop does not test column_no == columns - 1", site=site)
    r.check(all(seen[k] >= 1 for k in seen), "all-cases", "all four column cases exist", str(seen),
            "the column loop lacks one of the cases present/absent cell x last/other column: %s" % seen, nontrivial=False)
    # row start / end / push
    # value of the row when the inner loop is entered
    from ..paths import entry_value
    init = entry_value(prog, body, m.inner, m.row)
    r.check(init == ("call", "String::from", (m.left,)), "row-start",
            "each row starts as String::from(left_gap)", D(init) if init else "",
            "a row starts as %s, expected String::from(left_gap)" % (D(init) if init else "?"))
    # events on the row outside the inner loop but inside the outer loop
    outer_only = m.outer.blocks - m.inner.blocks
    tail = []
    for b in sorted(outer_only):
        for root in s.mut_calls().get(b, ()):
            if root == m.row:
                args = [prog.simp(a, body) for a in s.call_args(b)]
                tail.append((b, body.callee(b).name, args))
    r.check(len(tail) == 1 and tail[0][1] == "String::push_str" and tail[0][2][1] == m.right
            and all(body.cfg.dominates(e[1], tail[0][0]) for e in [(a, b) for a, b in m.inner.lp["exits"]]),
            "right-gap", "after the column loop the row receives right_gap once", "push_str(right_gap)",
            "outside the column loop the row is modified by %s; expected exactly one push_str(right_gap) after the loop"
            % [(n, [D(x) for x in a[1:]]) for _b, n, a in tail])
    pushes = [(b, n) for b, n in models.mutators_of(prog, body, m.acc)]
    okp = [b for b, n in pushes if n == "Vec::push"]
    bad = [n for b, n in pushes if n not in ("Vec::push", "Vec::new", "Vec::with_capacity")]
    okpush = False
    if len(okp) == 1 and okp[0] in outer_only:
        a = [prog.simp(x, body) for x in s.call_args(okp[0])]
        okpush = a[1][0] == "mut" and a[1][3] == m.row and tail and body.cfg.dominates(tail[0][0], okp[0])
    r.check(okpush and not bad, "row-push", "each finished row is pushed once; the result is only pushed to",
            "lines.push(row) after right_gap", "rows are not pushed exactly once after right_gap was appended "
            "(pushes=%d, other mutators=%s)" % (len(okp), bad))


def run(prog, rep):
    guarded(rep, "C20.R1", KEY, lambda: _ledger(prog, rep))

    def rest():
        m = _model(prog)
        w = _widths(prog, rep, m)
        if w is None:
            return
        cw, iw = w
        g = _index(prog, rep, m, cw)
        if g is None:
            return
        _row(prog, rep, m, cw, iw, g[0])
    guarded(rep, "C20.R2", KEY, rest)
    # ... and a cell must not end inside an escape sequence (same rule as C05.R5), or the padding and the following
    # cells are swallowed by the unterminated sequence
    from .C05 import _escape_aware
    guarded(rep, "C20.R7", "crate", lambda: _escape_aware(
        prog, rep, rule="C20.R7", consequence="a cell that ends inside a sequence swallows its padding, so rows differ in display width"))
    # equal row widths: the padding of a cell is computed with display_width, whose additivity over the cell text and
    # the padding (C10) makes every padded cell exactly column_width wide, also for text with escape sequences
    from .. import lemmas
    lemmas.load_all()
    st = lemmas.status(prog, "C10")
    if st == "ok":
        rep.ok("C20.R6", "crate", "lemma C10 holds in this run", "evaluated: ok", nontrivial=False)
    else:
        rep.violation("C20.R6", "crate", "lemma:C10", "crate", "lemma C10 is %s in this run: display_width is not additive, so padded "
                      "cells do not all have the column width and rows differ in width" % st)


def _lemma_r3(prog):
    from ..engine import Report
    rep = Report("C20")
    rep.set_config(prog.config)
    run(prog, rep)
    return not any(v.rule in ("C20.R3", "C20.R4") for v in rep.violations)


lemmas.register("C20.R3", _lemma_r3)

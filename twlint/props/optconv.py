"""FIELD-CORR rules on the Options conversions and builders (src/options.rs).

Every property that quantifies over options relies on the caller's options
reaching wrap/fill unchanged through `Into<Options>`: From<&Options> must copy
every field from the same-named field, From<usize> must be Options::new, each
builder must replace exactly its own field, and Options::new must produce the
documented defaults.  A module calls `check(prog, rep, 'Cxx')`; findings are
reported under rule id `Cxx.OPT`."""
from ..sym import sym_of
from ..describe import describe
from ..engine import AnchorMissing
from .util import Rule, guarded

FROM_REF = "crate::<options::Options as std::convert::From<&options::Options>>::from"
FROM_USIZE = "crate::<options::Options as std::convert::From<usize>>::from"
NEW = "crate::options::Options::new"
FIELDS = ["width", "line_ending", "initial_indent", "subsequent_indent", "break_words", "wrap_algorithm",
          "word_separator", "word_splitter"]
DEFAULTS = {
    "line_ending": ("adt", "line_ending::LineEnding", "LF", ()),
    "initial_indent": ("str", ""),
    "subsequent_indent": ("str", ""),
    "break_words": ("bool", True),
    "wrap_algorithm": ("call", "crate::wrap_algorithms::WrapAlgorithm::new", ()),
    "word_separator": ("call", "crate::word_separators::WordSeparator::new", ()),
    "word_splitter": ("adt", "word_splitters::WordSplitter", "HyphenSplitter", ()),
}


def _ret(prog, key):
    body = prog.need_body(key)
    s = sym_of(body)
    if len(body.cfg.returns) != 1:
        raise AnchorMissing("%s: several returns" % key)
    return body, prog.simp(s.val((0, ()), body.cfg.returns[0], "term"), body)


def _strip_clone(v):
    while v[0] == "call" and (v[1].endswith("::clone") or v[1] in ("Clone::clone",)) and len(v[2]) == 1:
        v = v[2][0]
    return v


def _fields_of(v):
    """{field: value} of an Options value: a literal, or an update chain over another Options value."""
    if v[0] == "adt" and v[1].endswith("Options"):
        return dict(v[3]), None
    ups = {}
    o = v
    while o[0] == "update":
        if len(o[2]) == 1 and isinstance(o[2][0], tuple) and o[2][0][0] == "f":
            ups.setdefault(o[2][0][2], o[3])
        o = o[1]
    return ups, o


def eval0(prog, t, depth=0):
    """Evaluate nullary crate constructor calls (WordSeparator::new(), Penalties::new(), ...) through their bodies."""
    if not isinstance(t, tuple) or not t or depth > 6:
        return t
    if t[0] == "call" and t[1].startswith("crate::") and t[2] == ():
        b = prog.body(t[1])
        if b is not None and len(b.cfg.returns) == 1:
            s = sym_of(b)
            r = prog.simp(s.val((0, ()), b.cfg.returns[0], "term"), b)
            return eval0(prog, r, depth + 1)
        return t
    return tuple(eval0(prog, x, depth + 1) if isinstance(x, tuple) else x for x in t)


def check(prog, rep, prop):
    rule = prop + ".OPT"

    def body():
        # From<&Options>
        b, ret = _ret(prog, FROM_REF)
        r = Rule(rep, rule, FROM_REF, site=b.span)
        D = lambda t: describe(t, b)[:100]
        src = ("param", 1, b.arg_names.get(1, "_1"))
        fields, base = _fields_of(ret)
        for f in FIELDS:
            v = fields.get(f)
            if v is None and base is not None:
                v = prog.simp(("field", base, f), b)
                if v[0] == "field" and v[1][0] == "call" and v[1][1] == NEW:
                    v = ("default-of-new", f)
            ok = v is not None and _strip_clone(v) == ("field", src, f)
            r.check(ok, "copy:%s" % f, "From<&Options> copies `%s` from the same-named field" % f, D(v) if v and v[0] != "default-of-new" else str(v),
                    "converting `&Options` into `Options` sets `%s` to %s instead of copying it: options passed by reference lose their %s"
                    % (f, D(v) if v and v[0] != "default-of-new" else "the default of Options::new", f))
        # From<usize>
        b2, ret2 = _ret(prog, FROM_USIZE)
        r2 = Rule(rep, rule, FROM_USIZE, site=b2.span)
        w = ("param", 1, b2.arg_names.get(1, "_1"))
        r2.check(ret2 == ("call", NEW, (w,)), "from-usize", "From<usize> is Options::new(width)", describe(ret2, b2)[:100],
                 "converting a width into Options yields %s instead of Options::new(width)" % describe(ret2, b2)[:120])
        # Options::new
        b3, ret3 = _ret(prog, NEW)
        r3 = Rule(rep, rule, NEW, site=b3.span)
        f3, base3 = _fields_of(ret3)
        w3 = ("param", 1, b3.arg_names.get(1, "_1"))
        r3.check(f3.get("width") == w3, "new:width", "Options::new(width) stores the width", "", "Options::new stores %s as width"
                 % describe(f3.get("width"), b3)[:80] if f3.get("width") else "Options::new does not set width")
        for f, want in DEFAULTS.items():
            want = prog.simp(want, b3)
            r3.check(f3.get(f) == want, "new:%s" % f, "default of `%s` is the documented one" % f, describe(f3.get(f), b3)[:80] if f3.get(f) else "?",
                     "Options::new sets `%s` to %s; documented default is %s" % (f, describe(f3.get(f), b3)[:80] if f3.get(f) else "?", describe(want, b3)))
        # builders
        for f in FIELDS:
            key = "crate::options::Options::%s" % f
            bb = prog.body(key)
            rb = Rule(rep, rule, key, site=bb.span if bb else key)
            if bb is None:
                rb.check(False, "builder:%s" % f, "", "", "builder Options::%s not found" % f)
                continue
            _b, retb = _ret(prog, key)
            fs, baseb = _fields_of(retb)
            selfp = ("param", 1, bb.arg_names.get(1, "_1"))
            argp = ("param", 2, bb.arg_names.get(2, "_2"))
            good = True
            bad = []
            for g in FIELDS:
                v = fs.get(g)
                if v is None and baseb is not None:
                    v = prog.simp(("field", baseb, g), bb)
                want = argp if g == f else ("field", selfp, g)
                if v != want:
                    good = False
                    bad.append((g, describe(v, bb)[:60] if v else "?"))
            rb.check(good, "builder:%s" % f, "Options::%s(x) replaces exactly `%s`" % (f, f), "field-by-field",
                     "the builder Options::%s does not simply replace `%s`: %s" % (f, f, bad))
        # defaults behind the constructors (feature dependent)
        from .common import has_feature
        ws = eval0(prog, ("call", "crate::word_separators::WordSeparator::new", ()))
        want_ws = ("adt", "word_separators::WordSeparator", "UnicodeBreakProperties" if has_feature(prog, "unicode-linebreak") else "AsciiSpace", ())
        rd = Rule(rep, rule, "crate::word_separators::WordSeparator::new", site="src/word_separators.rs")
        rd.check(ws == want_ws, "default-separator", "WordSeparator::new() is %s in this configuration" % want_ws[2], str(ws)[:80],
                 "WordSeparator::new() returns %s; documented default for this feature set is %s" % (str(ws)[:100], want_ws[2]))
        wa = eval0(prog, ("call", "crate::wrap_algorithms::WrapAlgorithm::new", ()))
        pen_new = ("call", "crate::wrap_algorithms::optimal_fit::Penalties::new", ())
        if has_feature(prog, "smawk"):
            pv = eval0(prog, pen_new)
            okwa = wa[0] == "adt" and wa[2] == "OptimalFit" and wa[3] and wa[3][0][1] == pv
            want_p = {"nline_penalty": 1000, "overflow_penalty": 2500, "short_last_line_fraction": 4,
                      "short_last_line_penalty": 25, "hyphen_penalty": 25}
            got_p = {}
            if pv[0] == "adt":
                for n_, v_ in pv[3]:
                    if v_[0] == "int":
                        got_p[n_] = v_[1]
                    elif v_[0] == "bin" and v_[1] == "Mul" and v_[2][0] == "int" and v_[3][0] == "int":
                        got_p[n_] = v_[2][1] * v_[3][1]
            rp = Rule(rep, rule, "crate::wrap_algorithms::optimal_fit::Penalties::new", site="src/wrap_algorithms/optimal_fit.rs")
            rp.check(got_p == want_p, "default-penalties", "Penalties::new() has the documented values (1000, 50*50, 4, 25, 25)", str(got_p),
                     "Penalties::new() yields %s; documented defaults are %s" % (got_p, want_p))
        else:
            okwa = wa == ("adt", "wrap_algorithms::WrapAlgorithm", "FirstFit", ())
        ra = Rule(rep, rule, "crate::wrap_algorithms::WrapAlgorithm::new", site="src/wrap_algorithms.rs")
        ra.check(okwa, "default-algorithm", "WrapAlgorithm::new() is %s in this configuration" % ("OptimalFit(Penalties::new())" if has_feature(prog, "smawk") else "FirstFit"),
                 str(wa)[:80], "WrapAlgorithm::new() returns %s" % str(wa)[:120])
    guarded(rep, rule, "crate::options", body)

"""C13 - ANSI colour codes do not change where lines break."""
from ..sym import sym_of
from ..engine import AnchorMissing
from ..describe import describe
from ..pred import facts_at
from ..engines.schemas import char_item
from .common import configs_for, has_feature
from .util import Rule, guarded, site_of_block
from . import C10, C11, C12
from .C10 import skip_fact, same_iterator, SK, CW

TITLE = "ANSI colour codes do not change where lines break"
TECHNIQUE = "control-dependence rule (skip before measure) with an alias check on the scanned iterator, over every measuring site in the crate"
DESIGN_REF = "DESIGN.md 4.6, 6/C13"
EXPLANATION = (
    "D: (R1) every site that measures or copies a scanned character - each call of ch_width(ch) in the crate, and each "
    "len_utf8(ch) accumulation or push(ch) in a function that consults the escape skipper - is dominated by the false outcome "
    "of skip_ansi_escape_sequence(ch, it) for the same ch (sites: display_width, break_apart x3, the index map, "
    "strip_ansi_escape_sequences). (R2) `it` is the iterator whose next() produced ch, or a by_ref().map(second) view of it, "
    "so the sequence is consumed from the scan itself. (R3 = C11.R7) the Unicode separator finds opportunities on the "
    "stripped text and cuts the original through the index map. (R4 = C10.R2/R3) the skipper's grammar. (R5 = C12.R5-R8) "
    "break_apart never cuts inside a sequence. "
    "T: word widths and boundaries are equal for coloured and stripped text under the statement's side conditions, so both "
    "runs make the same choices. U (not applicable statically): the two-run relation itself, and the ASCII separator's "
    "behaviour on sequences that contain spaces."
    " (R2) imported lemmas C10, C11.R3, C12.R3, C12.R4: every width compared in the pipeline is display_width of the text it stands for, and the hyphen splitter inspects only the neighbours of a hyphen."
    " (R3) same rule as C05.R5: every producer of fragment boundaries scans with the escape skipper; the hyphen splitter and the ASCII-space separator do not, which is a genuine finding on the pinned tree (KNOWN_FINDINGS.txt: a hyperlink whose URL contains a hyphen, an OSC title containing a space)."
)
ASSUMPTIONS = ["A-rustc", "A-std", "A-lb"]
LEVEL_TEXT = (
    "Decides that no escape-sequence character can reach a width computation, a byte-offset accumulation or the stripped "
    "text, at every such site in the crate, and that the skipper always advances the very iterator being scanned; equality "
    "of the two wrapping runs is then a paper argument (U-clause)."
)
LEVEL_NOTE = "Trusted: rustc MIR; the relation between the coloured and the stripped run is not mechanised."

FLOORS = {"ch_width": 2, "len_utf8": 1, "push": 1}   # vacuity guard only (display_width and break_apart each measure)


def configs(tier):
    return configs_for(tier)


def _sites(prog, rep):
    counts = {"ch_width": 0, "len_utf8": 0, "push": 0}
    for body in prog.bodies():
        if body.key == CW:
            continue
        s = sym_of(body)
        has_skip = any(cal.name == SK for _b, _t, cal in body.calls())
        for b, t, cal in body.calls():
            kind = None
            if cal.name == CW:
                kind = "ch_width"
            elif has_skip and cal.name == "char::len_utf8":
                kind = "len_utf8"
            elif has_skip and cal.name == "String::push":
                kind = "push"
            if kind is None:
                continue
            args = [prog.simp(a, body) for a in s.call_args(b)]
            ch = args[-1]
            r = Rule(rep, "C13.R1", body.key, site=t["span"])
            D = lambda x: describe(x, body)[:120]
            if not char_item(prog, body, ch):
                if kind == "ch_width":
                    r.check(False, "measure-arg:%s" % kind, "", "", "ch_width is applied to %s, which is not a character of a scan "
                            "guarded by the escape skipper" % D(ch))
                continue
            counts[kind] += 1
            sk = None
            for f in facts_at(prog, body, b):
                x = skip_fact(f)
                if x and x[0] == ch:
                    sk = x
            r.check(sk is not None and sk[2] is False, "skip-before-%s" % kind,
                    "%s(ch) is dominated by skip_ansi_escape_sequence(ch, ..) == false" % kind, "dominating guard",
                    "%s(%s) in %s is not dominated by the false outcome of skip_ansi_escape_sequence for the same character: "
                    "escape-sequence characters would be %s" % (kind, D(ch), body.key, "measured" if kind != "push" else "kept"))
            if sk is not None:
                al = same_iterator(prog, body, sk[1], ch, sk[3][3][1])
                r2 = Rule(rep, "C13.R2", body.key, site=t["span"])
                r2.check(al is not None, "alias-%s" % kind, "the skipper advances the iterator that produced ch", al or "",
                         "the skipper guarding %s(ch) is given %s, not the iterator that yielded ch" % (kind, D(sk[1])))
    want = dict(FLOORS)
    if not has_feature(prog, "unicode-linebreak"):
        want["len_utf8"] = 0
        want["push"] = 0
    for k, n in want.items():
        if counts[k] < n:
            rep.violation("C13.FLOOR", "crate", "floor:%s" % k, "crate", "only %d guarded %s sites found, expected at least %d" % (counts[k], k, n))
        else:
            rep.ok("C13.FLOOR", "crate", "at least %d %s sites analysed" % (n, k), "counted %d" % counts[k], nontrivial=False)


def run(prog, rep):
    guarded(rep, "C13.R1", "crate", lambda: _sites(prog, rep))
    guarded(rep, "C10.R3", C10.SK, lambda: C10._skipper(prog, rep))
    guarded(rep, "C12.R5", C12.BA, lambda: C12._break_apart(prog, rep))
    if has_feature(prog, "unicode-linebreak"):
        guarded(rep, "C11.R7", C11.STRIP, lambda: C11._strip(prog, rep))
        guarded(rep, "C11.R2", C11.UNI, lambda: C11._unicode(prog, rep))
    # every width the pipeline compares is display_width of the text it stands for (which ignores the sequences: C10),
    # and the hyphen splitter only looks at the neighbours of a '-' (C12.R4: "does not touch a hyphen")
    # no fragment boundary inside an escape sequence (same rule as C05.R5): otherwise the pieces are measured with
    # incomplete sequences and coloured / hyperlinked text breaks differently from the plain text
    from .C05 import _escape_aware
    guarded(rep, "C13.R3", "crate", lambda: _escape_aware(
        prog, rep, rule="C13.R3", consequence="text with such a sequence is wrapped differently from the same text without it"))
    from .. import lemmas
    lemmas.load_all()
    for l in ("C10", "C11.R3", "C12.R3", "C12.R4"):
        st = lemmas.status(prog, l)
        if st == "ok":
            rep.ok("C13.R2", "crate", "lemma %s holds in this run" % l, "evaluated: ok", nontrivial=False)
        else:
            rep.violation("C13.R2", "crate", "lemma:" + l, "crate", "lemma %s is %s in this run: widths would depend on the escape "
                          "sequences or words would be cut differently around them" % (l, st))

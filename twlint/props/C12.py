"""C12 - splitting and force-breaking words is lossless, bounded and escape-safe."""
from ..sym import sym_of, subterms
from ..engine import AnchorMissing, loop_models
from ..poly import poly, fact_nf, negate_cmp, GT0, GE0, EQ0, NE0
from ..paths import loop_system, PathView, fn_paths, contradictory, loop_state_vars, entry_value
from ..describe import describe
from ..engines.schemas import resolve_iter, index_iter_base, range_parts, closure_return_term, item_source, end_char
from .. import lemmas
from .common import configs_for, has_feature
from .util import Rule, guarded, site_of_block, check_visits_all
from . import models
from .C10 import skip_fact, same_iterator
from .C11 import chain_closure, find_index_terms

TITLE = "Splitting and force-breaking words is lossless, bounded and escape-safe"
TECHNIQUE = "partition-chaining over closure state, field-correspondence and normal-form rules on the piece constructors, accumulator accounting in break_apart"
DESIGN_REF = "DESIGN.md 4.2, 4.3, 4.4, 6/C12"
EXPLANATION = (
    "D: (R1) CHAIN-forward over split_words' inner closure: prev starts at 0, non-final pieces are word[prev..idx] with idx "
    "taken from split_points(&word) and prev := idx; the final piece word[prev..] is yielded iff prev < len || prev == 0 and "
    "then prev := len + 1. (R2) piece fields: non-final pieces have empty whitespace and penalty \"-\" iff the text up to the "
    "split point does not end in '-', else \"\"; the final piece carries the original whitespace and penalty. (R3) in every "
    "constructed Word the cached width is display_width of exactly the slice stored in `word`. (R4) hyphen split points: for "
    "each match of '-' a point idx+1 is recorded iff the char before and the char after are alphanumeric; NoHyphenation "
    "yields none. (R5) CHAIN-forward over break_apart's closure with (offset, idx) over self.word.char_indices(); the final "
    "piece carries self.whitespace / self.penalty, the others empty strings. (R6) break guard: a cut before ch iff width > 0 "
    "and width + ch_width(ch) - limit > 0. (R7) accumulator: the emitted width is the accumulator, after a cut it restarts at "
    "ch_width(ch), otherwise grows by ch_width(ch), and is unchanged for chars the skipper consumes. (R8) the skipper is "
    "consulted before measuring and advances the scanning iterator. (R9) break_words breaks a word iff word.width > limit, "
    "with the same limit, and passes other words through. "
    "T: pieces concatenate to the word; bounds, maximality and cached widths. U: hyphenation dictionaries / Custom splitters (A-custom)."
)
ASSUMPTIONS = ["A-rustc", "A-std (match_indices, char_indices)", "A-custom: Custom splitters and hyphenation dictionaries return increasing char boundaries"]
LEVEL_TEXT = (
    "Decides the chained-index structure, the exact field values of every constructed piece, the break guard and the width "
    "accounting on all paths of the two closures, hence for all words and limits; dictionary-based splitters are assumed."
)
LEVEL_NOTE = "Trusted: rustc MIR, std string iterators, A-custom for non-built-in splitters."

SPLIT = "crate::word_splitters::split_words"
SPTS = "crate::word_splitters::WordSplitter::split_points"
BA = "crate::core::Word::break_apart"
BW = "crate::core::break_words"
CW = "crate::core::ch_width"
DW = "crate::core::display_width"
HY = ("char", 0x2d)


def configs(tier):
    return configs_for(tier)


def _word_adt(ret):
    if ret[0] == "adt" and ret[2] == "Some" and ret[3] and ret[3][0][1][0] == "adt" and ret[3][0][1][1].endswith("Word"):
        return dict(ret[3][0][1][3])
    return None


def _split_words(prog, rep):
    outer = prog.closures_of(SPLIT)
    if len(outer) != 1:
        raise AnchorMissing("split_words: expected one flat_map closure")
    inner = prog.closures_of(outer[0].key)
    if len(inner) != 1:
        raise AnchorMissing("split_words: expected one from_fn closure")
    cb = inner[0]
    m = models.closure_model(prog, cb, state_types=("usize",))
    D = lambda t: describe(t, cb)[:150]
    r1 = Rule(rep, "C12.R1", cb.key, site=cb.span)
    r2 = Rule(rep, "C12.R2", cb.key, site=cb.span)
    r3 = Rule(rep, "C12.R3", cb.key, site=cb.span)
    if len(m.state) != 1:
        raise AnchorMissing("split_words closure: expected one usize state capture")
    pn = next(iter(m.state))
    prev = ("upvar", pn)
    r1.check(m.env.get(pn) == ("int", 0), "prev-init", "prev starts at 0", D(m.env.get(pn)), "prev starts at %s" % D(m.env.get(pn)))
    # the captured word: base of the slices stored in the `word` field of the yielded pieces
    wcap = None
    for rp in m.returns:
        f0 = _word_adt(rp.ret)
        if f0 and f0.get("word") is not None and f0["word"][0] == "call" and f0["word"][1] == "Index::index":
            b0 = f0["word"][2][0]
            if b0[0] == "field" and b0[2] == "word" and b0[1][0] == "upvar":
                wcap = b0[1]
    if wcap is None:
        raise AnchorMissing("split_words closure: the yielded pieces are not slices of a captured word's text")
    WW = ("field", wcap, "word")
    LEN = ("call", "str::len", (WW,))
    n_mid = n_tail = 0
    tail_guards = set()
    tail_rows = []
    for rp in m.returns:
        f = _word_adt(rp.ret)
        site = site_of_block(cb, rp.path[-2])
        if f is None:
            if rp.ret[0] == "adt" and rp.ret[2] == "None":
                r1.check(rp.next[pn] == prev, "none-keeps", "None leaves prev unchanged", "next(prev) = prev",
                         "prev changes to %s on a path that yields nothing" % D(rp.next[pn]), site=site)
                continue
            r1.check(False, "ret-shape", "", "", "split_words yields %s, not a Word literal" % D(rp.ret), site=site)
            continue
        w = f.get("word")
        okw = w is not None and w[0] == "call" and w[1] == "Index::index" and w[2][0] == WW
        kind, st, en = range_parts(w[2][1]) if okw else (None, None, None)
        r3.check(f.get("width") == ("call", DW, (w,)), "width-agree", "width = display_width(word field)", D(f.get("width")),
                 "a piece caches width %s, which is not display_width of its word field %s" % (D(f.get("width")), D(w)), site=site)
        if kind == "range":
            n_mid += 1
            r1.check(st == prev, "piece-start", "a piece starts at prev", D(st), "a piece starts at %s instead of prev" % D(st), site=site)
            src = item_source(prog, cb, en)
            oksrc = False
            if src is not None:
                s_, path, call = src
                # split_points iterator: vec::IntoIter over split_points(&word)
                oksrc = path == ["0"] and s_[0] == "call" and s_[1] == SPTS and s_[2][1] == WW
            r1.check(oksrc, "piece-end", "a piece ends at the next split point of split_points(&word)", D(en),
                     "a piece ends at %s, which is not the next item of split_points(&word)" % D(en), site=site)
            r1.check(rp.next[pn] == en, "advance", "prev := idx", "next(prev) = idx",
                     "after a piece ending at idx, prev becomes %s" % D(rp.next[pn]), site=site)
            r2.check(f.get("whitespace") == ("str", ""), "mid-ws", "non-final pieces have no whitespace", D(f.get("whitespace")),
                     "a non-final piece carries whitespace %s" % D(f.get("whitespace")), site=site)
            ends = None
            for a, pol in rp.facts:
                if a[0] == "b" and a[1][0] == "call" and a[1][1] == "str::ends_with" and a[1][2][1] == HY:
                    x = a[1][2][0]
                    if x[0] == "call" and x[1] == "Index::index" and x[2][0] == WW and range_parts(x[2][1])[0] == "to" \
                            and range_parts(x[2][1])[2] == en:
                        ends = pol
            want = ("str", "") if ends else ("str", "-")
            r2.check(ends is not None and f.get("penalty") == want, "mid-penalty",
                     "penalty is \"-\" iff word[..idx] does not already end in '-'", "ends_with=%s penalty=%s" % (ends, D(f.get("penalty"))),
                     "a non-final piece has penalty %s on a path where word[..idx].ends_with('-') is %s; expected \"-\" exactly when it "
                     "does not end in '-'" % (D(f.get("penalty")), ends), site=site)
        elif kind == "from":
            n_tail += 1
            r1.check(st == prev, "tail-start", "the final piece starts at prev", D(st), "the final piece starts at %s" % D(st), site=site)
            nfs = set(fact_nf(f_) for f_ in rp.facts if f_[0][0] == "cmp")
            c1 = GT0(poly(LEN) - poly(prev))
            c2a = GE0(poly(prev) - poly(LEN))
            c2b = EQ0(poly(prev))
            from ..poly import truth_rows
            row = truth_rows(nfs, [c1, c2b])
            r1.check(row is not None, "tail-guard", "the final piece's guard only tests prev < len and prev == 0",
                     str([(k, p.show(D)) for k, p in nfs]),
                     "the final piece is yielded under %s; expected a condition built from prev < word.len() and prev == 0"
                     % [(k, p.show(D)) for k, p in nfs], site=site)
            if row is not None:
                tail_rows.append(row)
            r1.check(poly(rp.next[pn]) == poly(LEN) + poly(("int", 1)), "tail-advance", "then prev := len + 1", "next(prev) = len + 1",
                     "after the final piece prev becomes %s; expected word.len() + 1 (so that an empty word is yielded exactly once)"
                     % D(rp.next[pn]), site=site)
            r1.check(any(pol and a[0] == "variant" and a[2] == "None" for a, pol in rp.facts), "tail-after-points",
                     "the final piece comes after all split points", "on the None path of the split point iterator",
                     "the final piece can be yielded before the split points are exhausted", site=site)
            r2.check(f.get("whitespace") == ("field", wcap, "whitespace") and f.get("penalty") == ("field", wcap, "penalty"), "tail-fields",
                     "the final piece carries the original whitespace and penalty", "same-named fields of the word",
                     "the final piece has whitespace %s and penalty %s; expected the original word's whitespace and penalty"
                     % (D(f.get("whitespace")), D(f.get("penalty"))), site=site)
        else:
            r1.check(False, "piece-kind", "", "", "a piece's word field is %s" % D(w), site=site)
    from ..poly import models_of
    got = models_of(tail_rows, 2)
    want = {(a, z) for a in (False, True) for z in (False, True) if a or z}
    r1.check(got == want, "tail-guard-both", "the final piece is yielded exactly when prev < len || prev == 0",
             "truth table over {prev < len, prev == 0}: %s" % sorted(got),
             "the final piece is yielded for %s of (prev < len, prev == 0); expected exactly the cases where one of them holds "
             "(an empty word must be yielded once, a consumed word not again)" % sorted(got))
    r1.check(n_mid >= 1 and n_tail >= 1, "kinds", "both piece kinds exist", "%d/%d" % (n_mid, n_tail),
             "split_words lacks non-final or final pieces (%d/%d)" % (n_mid, n_tail), nontrivial=False)


def _alnum_closure(prog, clo):
    cb, ret = closure_return_term(prog, clo)
    return cb is not None and ret[0] == "call" and ret[1] == "char::is_alphanumeric" and ret[2][0][0] == "param"


def _split_points(prog, rep):
    body = prog.need_body(SPTS)
    s = sym_of(body)
    r = Rule(rep, "C12.R4", SPTS, site=body.span)
    D = lambda t: describe(t, body)[:150]
    W = ("param", 2, body.arg_names.get(2, "_2"))
    lms = [lm for lm in loop_models(prog, body) if lm.kind == "iter"]
    hy = None
    for lm in lms:
        src = resolve_iter(prog, body, lm.next_call[2][0], lm.next_block)
        if src is not None and src[0] == "call" and src[1] == "str::match_indices":
            hy = (lm, src)
    if hy is None:
        raise AnchorMissing("split_points: no loop over word.match_indices(..)")
    lm, src = hy
    r.check(src[2] == (W, HY), "matches", "the hyphen splitter scans word.match_indices('-')", D(src),
            "the hyphen splitter scans %s, expected word.match_indices('-')" % D(src))
    from ..pred import facts_at
    hv = [pol for a, pol in facts_at(prog, body, lm.header) if a[0] == "variant" and a[2] == "HyphenSplitter"]
    r.check(hv == [True], "variant", "this loop is the HyphenSplitter arm", "guarded by the variant test",
            "the hyphen scan is not confined to the HyphenSplitter variant")
    idx = lm.item_proj(0)
    # the vec pushed to
    pushes = [b for b in lm.blocks if body.blocks[b]["term"]["k"] == "call" and body.callee(b).name == "Vec::push"]
    if len(pushes) != 1:
        raise AnchorMissing("split_points: expected one push in the hyphen loop")
    acc = s.mut_calls()[pushes[0]][0]
    RTO = lambda e: ("call", "Index::index", (W, ("adt", "std::ops::RangeTo", "RangeTo", (("end", e),))))
    RFROM = lambda e: ("call", "Index::index", (W, ("adt", "std::ops::RangeFrom", "RangeFrom", (("start", e),))))

    def side_of(c):
        """which neighbour of the '-' the Option<char> c is"""
        ec = end_char(prog, body, c)
        if ec is None:
            return None
        if ec == ("back", RTO(idx)):
            return "before"
        if ec[0] == "front" and ec[1][0] == "call" and ec[1][1] == "Index::index" and ec[1][2][0] == W:
            kind, st, en = range_parts(ec[1][2][1])
            if kind == "from" and poly(st) == poly(idx) + poly(("int", 1)):
                return "after"
        return None

    def alnum_verdict(atom, pol):
        """(Option<char> term, truth of `it is Some(alphanumeric)`) established by a fact"""
        if atom[0] == "b" and atom[1][0] == "call":
            n, a = atom[1][1], atom[1][2]
            if n == "Option::is_some" and a[0][0] == "call" and a[0][1] == "Option::filter" and _alnum_closure(prog, a[0][2][1]):
                return (a[0][2][0], pol)
            if n == "Option::is_some_and" and _alnum_closure(prog, a[1]):
                return (a[0], pol)
            if n == "Option::is_none_or" and _alnum_closure(prog, a[1]) and not pol:
                return None
            if n == "Option::map_or" and a[1] == ("bool", False) and _alnum_closure(prog, a[2]):
                return (a[0], pol)
            if n == "char::is_alphanumeric" and a[0][0] == "field" and a[0][2] == "0" and a[0][1][0] == "as" and a[0][1][2] == "Some":
                return (a[0][1][1], pol)
        if atom[0] == "variant":
            if (atom[2] == "None" and pol) or (atom[2] == "Some" and not pol):
                return (atom[1], False)
        return None
    n_push = 0
    check_visits_all(r, body, lm, "the hyphen scan over word.match_indices('-')")
    for tr in loop_system(prog, body, lm, [], [acc]):
        if tr.kind != "back":
            continue
        evs = [(n, a[1]) for (_b, n, a, _r) in tr.events]
        conds = set()
        for a, pol in tr.facts:
            v = alnum_verdict(a, pol)
            if v is None:
                continue
            sd = side_of(v[0])
            if sd is not None:
                conds.add((sd, v[1]))
        conds = sorted(conds, key=str)
        site = site_of_block(body, tr.path[-2])
        if evs:
            n_push += 1
            r.check(len(evs) == 1 and evs[0][0] == "Vec::push" and poly(evs[0][1]) == poly(idx) + poly(("int", 1)), "point", "the recorded split point is idx + 1",
                    str([(n, D(a)) for n, a in evs]), "the hyphen splitter records %s, expected idx + 1 (directly after the '-')"
                    % [(n, D(a)) for n, a in evs], site=site)
            r.check(conds == [("after", True), ("before", True)], "alnum-both",
                    "a point is recorded iff the chars before and after the '-' are alphanumeric", str(conds),
                    "a split point is recorded under %s; expected: char before '-' alphanumeric and char after '-' alphanumeric"
                    % conds, site=site)
        else:
            r.check(any(pol is False and side in ("before", "after") for side, pol in conds), "no-point",
                    "no point when either neighbour is not alphanumeric", str(conds),
                    "a path that records nothing is not caused by a failed alphanumeric test: %s" % conds, site=site)
    r.check(n_push == 1, "one-push-path", "exactly one recording path", str(n_push), "expected one recording path, found %d" % n_push, nontrivial=False)
    # NoHyphenation arm returns an empty Vec
    ret = s.val((0, ()), body.cfg.returns[0], "term")
    okno = False
    if ret[0] == "phi":
        for p, v in s.phi_inputs(ret).items():
            facts = facts_at(prog, body, p)
            if any(pol and a[0] == "variant" and a[2] == "NoHyphenation" for a, pol in facts):
                okno = prog.simp(v, body) == ("call", "Vec::new", ())
    r.check(okno, "no-hyphenation", "NoHyphenation yields no split points", "Vec::new()", "the NoHyphenation arm does not return an empty Vec")


def _break_apart(prog, rep):
    parent = prog.need_body(BA)
    cbs = prog.closures_of(BA)
    cb = [c for c in cbs if "Word" in c.local_ty(0)]
    if len(cb) != 1:
        raise AnchorMissing("break_apart: from_fn closure not found")
    cb = cb[0]
    D = lambda t: describe(t, cb)[:150]

    def idx_ok(en, base):
        ib = index_iter_base(prog, cb, en)
        if ib is not None and ib[0] == base and ib[1] == "str::char_indices":
            return "offset of self.word.char_indices()"
        return None

    def wrapper_ok(ret, ix):
        f = _word_adt(ret)
        return f is not None and f.get("word") == ix
    res = chain_closure(prog, rep, "C12.R5", cb, idx_ok, wrapper_ok)
    if res is None:
        return
    m, base, startv, parent_base = res
    r5 = Rule(rep, "C12.R5", cb.key, site=cb.span)
    r6 = Rule(rep, "C12.R6", cb.key, site=cb.span)
    r7 = Rule(rep, "C12.R7", cb.key, site=cb.span)
    r8 = Rule(rep, "C12.R8", cb.key, site=cb.span)
    SELF = ("param", 1, parent.arg_names.get(1, "_1"))
    r5.check(parent_base == ("field", SELF, "word"), "base-is-word", "pieces are cut from self.word", describe(parent_base, parent) if parent_base else "?",
             "break_apart cuts pieces from %s" % (describe(parent_base, parent) if parent_base else "?"))
    selfcap = base[1] if base[0] == "field" else None
    # roles: width accumulator = usize state other than the offset, limit = usize capture never written
    others = [n for n in m.state if n != startv[1]]
    writes = set()
    for lm, trans in m.loops:
        for tr in trans:
            for n in others:
                if tr.next[m.state[n]] != ("upvar", n) and tr.next[m.state[n]][0] != "phi":
                    writes.add(n)
                if tr.next[m.state[n]][0] == "phi":
                    writes.add(n)
    accs = [n for n in others if n in writes]
    lims = [n for n in others if n not in writes]
    if len(accs) != 1 or len(lims) != 1:
        raise AnchorMissing("break_apart closure: expected one width accumulator and one limit capture (found %s / %s)" % (accs, lims))
    an, ln = accs[0], lims[0]
    r7.check(m.env.get(an) == ("int", 0), "acc-init", "the width accumulator starts at 0", D(m.env.get(an)),
             "the width accumulator starts at %s" % D(m.env.get(an)))
    r6.check(m.env.get(ln) == ("param", 2, parent.arg_names.get(2, "_2")), "limit", "the limit is the line_width argument",
             describe(m.env.get(ln), parent), "the limit is %s, not the line_width argument" % describe(m.env.get(ln), parent))
    lim = ("upvar", ln)
    s = sym_of(cb)
    for lm, trans in m.loops:
        ch = lm.item_proj(1)
        acc = s.val_entry(m.state[an], lm.header)
        chw = ("call", CW, (ch,))
        A = GT0(poly(acc))
        B = GT0(poly(acc) + poly(chw) - poly(lim))
        for tr in trans:
            if any(pol and a[0] == "variant" and a[2] == "None" for a, pol in tr.facts):
                continue
            site = site_of_block(cb, tr.path[-2])
            sk = None
            for f in tr.facts:
                x = skip_fact(f)
                if x and x[0] == ch:
                    sk = x
            if sk is None:
                r8.check(False, "no-skip-test", "", "", "a path of break_apart's scan does not consult the skipper before measuring", site=site)
                continue
            al = same_iterator(prog, cb, sk[1], ch, sk[3][3][1])
            r8.check(al is not None, "alias", "the skipper advances the scanning iterator", al or "",
                     "the skipper is given %s, not (a view of) the iterator that yielded ch: a cut could fall inside an escape sequence"
                     % D(sk[1]), site=site)
            nfs = set(fact_nf(f) for f in tr.facts if f[0][0] == "cmp")
            nacc = poly(tr.next[m.state[an]])
            if sk[2]:
                r7.check(nacc == poly(acc) and tr.kind == "back", "skip-keeps", "skipped chars leave the accumulator unchanged and never cut",
                         "next(acc) = acc", "for a char consumed by the skipper the accumulator becomes %s (or a piece is cut)" % nacc.show(D), site=site)
                continue
            if tr.kind == "exit":
                r6.check(nfs == {A, B}, "cut-cond", "a cut before ch iff width > 0 and width + ch_width(ch) - limit > 0",
                         str([(k, p.show(D)) for k, p in nfs]),
                         "a piece is cut under %s; expected width > 0 && width + ch_width(ch) > limit" % [(k, p.show(D)) for k, p in nfs], site=site)
                r7.check(nacc == poly(chw), "restart", "after a cut the accumulator restarts at ch_width(ch)", "next(acc) = ch_width(ch)",
                         "after a cut the accumulator becomes %s, expected ch_width(ch)" % nacc.show(D), site=site)
            else:
                r6.check(negate_cmp(A) in nfs or negate_cmp(B) in nfs, "no-cut-cond", "no cut when either conjunct fails",
                         str([(k, p.show(D)) for k, p in nfs]), "the scan continues without a cut under %s, which negates neither "
                         "width > 0 nor width + ch_width(ch) > limit" % [(k, p.show(D)) for k, p in nfs], site=site)
                r6.check(all(nf in (A, B, negate_cmp(A), negate_cmp(B)) for nf in nfs), "no-extra", "no other comparison decides the cut", "",
                         "an extra comparison influences the cut: %s" % [(k, p.show(D)) for k, p in nfs], site=site)
                r7.check(nacc == poly(acc) + poly(chw), "grow", "otherwise the accumulator grows by ch_width(ch)", "next(acc) = acc + ch_width(ch)",
                         "without a cut the accumulator becomes %s, expected width + ch_width(ch)" % nacc.show(D), site=site)
    # fields of the emitted pieces
    for rp in m.returns:
        f = _word_adt(rp.ret)
        if f is None:
            continue
        site = site_of_block(cb, rp.path[-2])
        kind = range_parts(f["word"][2][1])[0]
        accv = None
        wv = f.get("width")
        ok_w = wv is not None and (wv == ("upvar", an) or (wv[0] == "phi" and wv[2] == m.state[an]))
        r7.check(ok_w, "emit-width", "the emitted width is the accumulated width", D(wv),
                 "a piece's cached width is %s, not the accumulated width" % D(wv), site=site)
        if kind == "range":
            r5.check(f.get("whitespace") == ("str", "") and f.get("penalty") == ("str", ""), "mid-fields",
                     "non-final pieces have empty whitespace and penalty", "\"\" / \"\"",
                     "a non-final piece has whitespace %s and penalty %s" % (D(f.get("whitespace")), D(f.get("penalty"))), site=site)
        else:
            sc = ("upvar", selfcap[1]) if selfcap and selfcap[0] == "upvar" else None
            r5.check(sc is not None and f.get("whitespace") == ("field", sc, "whitespace") and f.get("penalty") == ("field", sc, "penalty"),
                     "tail-fields", "the final piece carries self.whitespace and self.penalty", "same-named fields",
                     "the final piece has whitespace %s and penalty %s" % (D(f.get("whitespace")), D(f.get("penalty"))), site=site)


def _break_words(prog, rep):
    body = prog.need_body(BW)
    s = sym_of(body)
    r = Rule(rep, "C12.R9", BW, site=body.span)
    D = lambda t: describe(t, body)[:150]
    LIM = ("param", 2, body.arg_names.get(2, "_2"))
    acc = models.returned_vec_root(prog, body)
    lms = [lm for lm in loop_models(prog, body) if lm.kind == "iter"]
    # `for piece in it { acc.push(piece) }` nested in the word loop is `acc.extend(it)`: a loop that visits every
    # item of its source and whose every pass does nothing but push the item unchanged
    push_all = {}
    outer = [x for x in lms if not any(x is not y and x.blocks < y.blocks for y in lms)]
    for x in lms:
        if x in outer:
            continue
        xs = resolve_iter(prog, body, x.next_call[2][0], x.next_block)
        trs = [t for t in loop_system(prog, body, x, [], [acc]) if t.kind == "back"]
        from .util import early_exits
        if xs is not None and trs and not early_exits(body, x) and all(
                [(n, a[1]) for (_b, n, a, _r) in t.events] == [("Vec::push", x.item)] for t in trs):
            push_all[x.header] = prog.simp(xs, body)
    lms = outer
    if len(lms) != 1 or len(push_all) + 1 != len([lm for lm in loop_models(prog, body) if lm.kind == "iter"]):
        raise AnchorMissing("break_words: expected one loop")
    lm = lms[0]
    src = resolve_iter(prog, body, lm.next_call[2][0], lm.next_block)
    r.check(src == ("param", 1, body.arg_names.get(1, "_1")), "source", "break_words iterates its words argument", D(src) if src else "?",
            "break_words iterates %s" % (D(src) if src else "?"))
    w = lm.item
    cases = set()
    check_visits_all(r, body, lm, "break_words' loop over the words")
    for tr in loop_system(prog, body, lm, [], [acc]):
        if tr.kind != "back":
            continue
        nfs = [fact_nf(f) for f in tr.facts if f[0][0] == "cmp"]
        evs = [(n, a[1]) for (_b, n, a, _r) in tr.events]
        gt = GT0(poly(("field", w, "width")) - poly(LIM))
        site = site_of_block(body, tr.path[-2])
        if gt in nfs:
            cases.add("break")
            inner = [h for h in push_all if h in tr.path]
            if inner and all(push_all[h] == ("call", BA, (w, LIM)) for h in inner) and len(inner) == 1 \
                    and all(n == "Vec::push" for n, _a in evs):
                evs = [("Extend::extend", ("call", BA, (w, LIM)))]     # the push-all loop over break_apart(limit)
            r.check(evs == [("Extend::extend", ("call", BA, (w, LIM)))], "break", "wider words are replaced by break_apart(limit) with the same limit",
                    str([(n, D(a)) for n, a in evs]), "for word.width > limit the result receives %s; expected extend(word.break_apart(limit))"
                    % [(n, D(a)) for n, a in evs], site=site)
        elif negate_cmp(gt) in nfs:
            cases.add("keep")
            r.check(evs == [("Vec::push", w)], "keep", "other words pass through unchanged", str([(n, D(a)) for n, a in evs]),
                    "for word.width <= limit the result receives %s; expected push(word)" % [(n, D(a)) for n, a in evs], site=site)
        else:
            r.check(False, "cond", "", "", "break_words decides on %s, expected word.width > line_width" % [(k, p.show(D)) for k, p in nfs], site=site)
    r.check(cases == {"break", "keep"}, "cases", "both cases exist", str(cases), "break_words lacks a case: %s" % cases, nontrivial=False)
    bad = [n for b, n in models.mutators_of(prog, body, acc) if n not in ("Vec::push", "Extend::extend", "Vec::new", "Vec::with_capacity")]
    r.check(not bad, "mutators", "the result is only pushed to / extended", "", "the result is also modified by %s" % bad)


def run(prog, rep):
    guarded(rep, "C12.R1", SPLIT, lambda: _split_words(prog, rep))
    guarded(rep, "C12.R4", SPTS, lambda: _split_points(prog, rep))
    guarded(rep, "C12.R5", BA, lambda: _break_apart(prog, rep))
    guarded(rep, "C12.R9", BW, lambda: _break_words(prog, rep))
    if not _IN_LEMMA[0]:
        # the cached width of a piece (display_width of its text, R3) and the widths break_apart accumulates
        # (ch_width per char, R6/R7) agree only if display_width is the sum of ch_width outside escapes: C10
        lemmas.load_all()
        st = lemmas.status(prog, "C10")
        if st == "ok":
            rep.ok("C12.R10", "crate", "lemma C10 holds in this run", "evaluated: ok", nontrivial=False)
        else:
            rep.violation("C12.R10", "crate", "lemma:C10", "crate", "lemma C10 is %s in this run: display_width is not the sum of "
                          "ch_width over the visible chars, so cached widths and force-broken pieces disagree" % st)


_IN_LEMMA = [False]


def _mk(rule):
    def f(prog):
        from ..engine import Report
        rep = Report("C12")
        rep.set_config(prog.config)
        _IN_LEMMA[0] = True
        try:
            run(prog, rep)
        finally:
            _IN_LEMMA[0] = False
        return not any(v.rule == rule for v in rep.violations)
    return f


for _r in ("C12.R1", "C12.R2", "C12.R3", "C12.R4", "C12.R5", "C12.R6", "C12.R7", "C12.R8", "C12.R9"):
    lemmas.register(_r, _mk(_r))

"""C09 - existing line breaks are kept and paragraphs wrap independently."""
from ..sym import sym_of, subterms, overlaps
from ..engine import AnchorMissing, loop_models
from ..poly import poly, fact_nf, GT0, GE0, EQ0, NE0
from ..paths import loop_system, PathView, fn_paths, contradictory
from ..describe import describe
from .. import lemmas
from .common import configs_for
from .util import Rule, guarded, site_of_block, check_visits_all
from . import models

TITLE = "Existing line breaks are kept and paragraphs wrap independently"
TECHNIQUE = "use-set (non-interference) rule on the shared output vector and on the line-ending option, dominance of pushes, append-trace grammar of the join"
DESIGN_REF = "DESIGN.md 4.6, 4.5, 6/C09"
EXPLANATION = (
    "D: (R1) in wrap and the two paragraph functions the shared output vector is consumed only by Vec::is_empty, Vec::len, "
    "Vec::push and by forwarding it to the paragraph functions: no earlier line is ever read. (R2) every path through a "
    "paragraph function pushes at least one line: the fast path directly, the slow path because each iteration over the "
    "arrangement pushes exactly once and the arrangement has at least one line (C06.R2/R3). (R3) fill_slow_path: the result "
    "receives, per line i of wrap(text, options), [push_str(ending) iff i > 0], push_str(line), with ending = "
    "options.line_ending.as_str() of the same options, and nothing else. (R4) options.line_ending on the wrap/fill path flows "
    "only into as_str(), whose result is only the split pattern (wrap) and the join separator (fill). (R5) the output vector "
    "is append-only. "
    "T: wrap(a+e+b) starts with wrap(a)'s lines; the rest depends on a only through ACC-EMPTY, which is false after the first "
    "paragraph; with empty indents it equals wrap(b); LF/CRLF equivariance from R3/R4. U: none structural."
)
ASSUMPTIONS = ["A-rustc", "A-std (str::split, Vec)"]
LEVEL_TEXT = (
    "Decides the non-interference structure: the only state shared between paragraphs is the output vector, which is only "
    "appended to and only tested for emptiness, and the line ending is used for nothing but splitting and joining; the "
    "relations between runs in the statement follow on paper."
)
LEVEL_NOTE = "Trusted: rustc MIR; std::str::split semantics."

WRAP = "crate::wrap::wrap"
WSL = "crate::wrap::wrap_single_line"
SLOW = "crate::wrap::wrap_single_line_slow_path"
FSP = "crate::fill::fill_slow_path"
FORWARD = {WSL, SLOW, "crate::fuzzing::wrap_single_line", "crate::fuzzing::wrap_single_line_slow_path"}


def configs(tier):
    return configs_for(tier)


def _acc_root(prog, key):
    body = prog.need_body(key)
    if key == WRAP:
        return body, models.returned_vec_root(prog, body)
    return body, (3, ("deref",))


def _mentions(t, accvals, depth=0):
    """Does term t denote (a state of) the accumulator itself (not something computed from it)?"""
    if t in accvals:
        return True
    if t[0] in ("mut", "phi") and t[-1] in accvals:
        return True
    return False


def _mentions_local(x, l):
    if isinstance(x, dict):
        if x.get("l") == l and ("p" in x or "ty" in x):
            return True
        return any(_mentions_local(v, l) for v in x.values())
    if isinstance(x, list):
        return any(_mentions_local(v, l) for v in x)
    return False


def _use_set(prog, rep):
    n = 0
    for key in (WRAP, WSL, SLOW):
        body, root = _acc_root(prog, key)
        s = sym_of(body)
        r = Rule(rep, "C09.R1", key, site=body.span)
        r5 = Rule(rep, "C09.R5", key, site=body.span)
        D = lambda t: describe(t, body)[:120]
        for b, t, cal in body.calls():
            roots = [x for x in s.mut_calls().get(b, ()) if x[0] != "opaque" and overlaps(x, root)]
            args = s.call_args(b)
            if roots:
                n += 1
                ok = cal.name in ("Vec::push",) or cal.name in FORWARD
                r5.check(ok, "mut:%s" % cal.name, "the output vector is only pushed to or forwarded", cal.name,
                         "the output vector is passed mutably to %s: it is no longer append-only" % cal.name, site=t["span"])
                continue
            for a in args:
                reads = False
                if a[0] in ("mut", "phi") and len(a) >= 3:
                    pk = a[3] if a[0] == "mut" else a[2]
                    reads = isinstance(pk, tuple) and pk and pk[0] != "opaque" and overlaps(pk, root)
                elif key != WRAP and a == ("param", 3, body.arg_names.get(3, "_3")):
                    reads = True
                elif key == WRAP and a[0] == "call" and a[1] in ("Vec::new", "Vec::with_capacity") and False:
                    reads = True
                if reads and cal.name in ("Deref::deref", "Vec::as_slice"):
                    # the vector viewed as a slice: fine if that slice is only measured (is_empty / len)
                    dest = t["dest"]["l"]
                    users = [body.callee(b2).name for b2, t2, _c2 in body.calls()
                             if any(_mentions_local(x, dest) for x in t2.get("args", []))]
                    n += 1
                    r.check(all(u in ("[]::is_empty", "[]::len") for u in users), "read:slice-view",
                            "the output vector viewed as a slice is only inspected through is_empty()/len()", str(users),
                            "the output vector is read through a slice view by %s: later paragraphs would depend on the text of "
                            "earlier ones" % users, site=t["span"])
                    continue
                if reads:
                    n += 1
                    r.check(cal.name in ("Vec::is_empty", "Vec::len"), "read:%s" % cal.name,
                            "the output vector is only inspected through is_empty()/len()", cal.name,
                            "the output vector is read by %s: later paragraphs would depend on the text of earlier ones" % cal.name, site=t["span"])
    if n < 6:
        rep.violation("C09.R1", "crate", "floor", "crate", "only %d uses of the output vector found (floor 6)" % n)
    # the length of the output vector may only be compared with 0 (ACC-EMPTY idiom)
    for key in (WRAP, WSL, SLOW):
        body, root = _acc_root(prog, key)
        s = sym_of(body)
        r = Rule(rep, "C09.R1", key, site=body.span)
        terms = []
        for b in sorted(body.cfg.reach):
            t = body.blocks[b]["term"]
            if t["k"] == "switch":
                terms.append((prog.simp(s.switch_value(b), body), t["span"]))
            elif t["k"] == "call":
                for a in s.call_args(b):
                    terms.append((prog.simp(a, body), t["span"]))
            for i, st in enumerate(body.blocks[b]["stmts"]):
                if st["k"] == "assign" and body.place_name(st["place"]):
                    terms.append((prog.simp(s.rvalue(st["rv"], b, i), body), st["span"]))
        for t, span in terms:
            for x in subterms(t):
                if x[0] == "bin" and x[1] in ("Eq", "Ne", "Gt", "Lt", "Ge", "Le"):
                    continue
            bad = _len_misuse(t, root)
            if bad:
                r.check(False, "len-use", "", "", "the number of lines emitted so far (%s) is used for more than an emptiness test: "
                        "later paragraphs would depend on how many lines earlier ones produced" % describe(t, body)[:120], site=span)


def _len_misuse(t, root, parent=None):
    """Vec::len(<acc state>) appearing anywhere but as a direct operand of a comparison with 0."""
    if not isinstance(t, tuple) or not t:
        return False
    if t[0] == "call" and t[1] in ("Vec::len", "[]::len") and t[2] and t[2][0][0] in ("mut", "phi", "param"):
        a = t[2][0]
        pk = a[3] if a[0] == "mut" else a[2] if a[0] == "phi" else None
        is_acc = (pk is not None and isinstance(pk, tuple) and pk and pk[0] != "opaque" and overlaps(pk, root)) or \
                 (a[0] == "param" and a[1] == 3 and root == (3, ("deref",)))
        if is_acc:
            if parent is not None and parent[0] == "bin" and parent[1] in ("Eq", "Ne", "Gt", "Lt", "Ge", "Le"):
                # any comparison whose normal form is len == 0 / len >= 1 (len > 0, len != 0, 1 <= len, len < 1 ...)
                from ..poly import cmp_nf, poly as _poly, GE0 as _GE0, Poly as _Poly
                nf = cmp_nf(parent[1], parent[2], parent[3])
                L = _poly(t)
                if nf in (_GE0(-L), _GE0(L - _Poly.const(1))):
                    return False
            return True
    for x in t:
        if isinstance(x, tuple) and _len_misuse(x, root, t):
            return True
    return False


def _every_path_pushes(prog, rep):
    # wrap_single_line: every entry->return path contains a push or the forwarding call
    body, root = _acc_root(prog, WSL)
    s = sym_of(body)
    r = Rule(rep, "C09.R2", WSL, site=body.span)
    bad = 0
    npaths = 0
    for path in fn_paths(body):
        pv = PathView(prog, body, path)
        if contradictory(pv.facts()):
            continue
        npaths += 1
        evs = [n for (_b, n, _a, _r) in pv.events([root])]
        if not any(n == "Vec::push" or n in FORWARD for n in evs):
            bad += 1
    r.check(bad == 0 and npaths >= 2, "wsl-paths", "every path through wrap_single_line pushes a line or forwards to the slow path",
            "%d paths" % npaths, "%d of %d paths through wrap_single_line neither push a line nor call the slow path: a paragraph "
            "would produce no line" % (bad, npaths))
    # wrap: every iteration over the paragraphs calls the paragraph function exactly once
    wb, wroot = _acc_root(prog, WRAP)
    wl = [lm for lm in loop_models(prog, wb) if lm.kind == "iter"]
    rw = Rule(rep, "C09.R2", WRAP, site=wb.span)
    if len(wl) == 1:
        cnts = []
        check_visits_all(r, wb, wl[0], "wrap's paragraph loop")
        for tr in loop_system(prog, wb, wl[0], [], [wroot]):
            if tr.kind == "back":
                cnts.append(len([1 for (_b, n, _a, _r) in tr.events if n in FORWARD]))
        rw.check(cnts and all(c == 1 for c in cnts), "every-paragraph", "every paragraph is wrapped exactly once",
                 "%d path(s) through the paragraph loop" % len(cnts),
                 "a path through wrap's paragraph loop calls the paragraph function %s times: a paragraph would be skipped or "
                 "wrapped twice" % cnts)
    else:
        rw.check(False, "paragraph-loop", "", "", "wrap: expected one paragraph loop")
    m = models.slow_path(prog)
    r2 = Rule(rep, "C09.R2", SLOW, site=m.body.span)
    okk = all(len(rec.pushes) == 1 and rec.pushes[0][1] == "Vec::push" for rec in m.recs)
    r2.check(okk and len(m.recs) >= 5, "one-push-per-line", "each iteration over the arrangement pushes exactly one line",
             "%d paths" % len(m.recs), "an iteration of the reassembly loop pushes %s lines" % [len(rec.pushes) for rec in m.recs])
    # nothing else pushes outside the loop
    s2 = sym_of(m.body)
    outside = [(b, n) for b, n in models.mutators_of(prog, m.body, m.acc) if b not in m.lm.blocks]
    r2.check(not outside, "no-extra-push", "no line is pushed outside the loop over the arrangement", "",
             "the slow path also modifies the output vector outside the reassembly loop: %s" % outside)
    lemmas.load_all()
    for l in ("C06.R2", "C06.R3", "DISPATCH", "C04.WRAPPATH"):
        st = lemmas.status(prog, l)
        if st in ("ok",):
            rep.ok("C09.R2", "crate", "arrangements have at least one line (%s)" % l, "lemma ok", nontrivial=False)
        elif st == "failed":
            rep.violation("C09.R2", "crate", "lemma:" + l, "crate", "lemma %s fails: an arrangement could be empty" % l)


def _join(prog, rep):
    body = prog.need_body(FSP)
    s = sym_of(body)
    r = Rule(rep, "C09.R3", FSP, site=body.span)
    D = lambda t: describe(t, body)[:140]
    TEXT = ("param", 1, body.arg_names.get(1, "_1"))
    OPT = ("param", 2, body.arg_names.get(2, "_2"))
    res = models.returned_string_root(prog, body)
    lms = [lm for lm in loop_models(prog, body) if lm.kind == "iter"]
    if len(lms) != 1:
        raise AnchorMissing("fill_slow_path: expected one loop")
    lm = lms[0]
    from ..idioms import FirstIter
    fi = FirstIter(prog, body, lm)
    wrapped = ("call", "crate::wrap::wrap", (TEXT, OPT))
    r.check(fi.source in (("call", "[]::iter", (wrapped,)), wrapped, ("call", "Vec::iter", (wrapped,))), "source",
            "the loop runs over the lines of wrap(text, options)", D(lm.source),
            "fill_slow_path iterates %s; expected the lines of wrap(text, options)" % D(lm.source))
    line = fi.element
    ending = ("call", "crate::line_ending::LineEnding::as_str", (("field", OPT, "line_ending"),))
    cases = set()
    check_visits_all(r, body, lm, "the join loop of fill_slow_path")
    for tr in loop_system(prog, body, lm, [], [res]):
        if tr.kind != "back":
            continue
        nfs = [fact_nf(f) for f in tr.facts if f[0][0] == "cmp"]
        evs = [(n, a[1]) for (_b, n, a, _r) in tr.events]
        site = site_of_block(body, tr.path[-2])
        first = fi.verdict(tr.facts)
        if first is None:
            r.check(False, "branch", "", "", "a path of the join loop does not test whether this is the first line", site=site)
            continue
        later = not first
        cases.add(later)
        exp = ([("String::push_str", ending)] if later else []) + [("String::push_str", line)]
        r.check(evs == exp, "trace:%s" % ("later" if later else "first"), "line %s: %s" % ("i > 0" if later else "0", [(n.split("::")[-1], D(a)) for n, a in exp]),
                "trace matches", "for %s the result receives %s; expected %s" % ("a later line" if later else "the first line",
                                                                               [(n.split("::")[-1], D(a)) for n, a in evs],
                                                                               [(n.split("::")[-1], D(a)) for n, a in exp]), site=site)
    r.check(cases == {True, False}, "cases", "first and later lines are distinguished", str(cases), "the join does not distinguish the first line", nontrivial=False)
    other = [(b, n) for b, n in models.mutators_of(prog, body, res) if b not in lm.blocks and n not in ("String::with_capacity", "String::new")]
    r.check(not other, "only-loop", "the result is only built by the join loop", "", "the result is also modified by %s" % other)
    # fill's slow branch passes text and options unchanged
    fb = prog.need_body("crate::fill::fill")
    fs = sym_of(fb)
    calls = [(b, [prog.simp(a, fb) for a in fs.call_args(b)]) for b, t, c in fb.calls() if c.name == FSP]
    r2 = Rule(rep, "C09.R3", "crate::fill::fill", site=fb.span)
    T1 = ("param", 1, fb.arg_names.get(1, "_1"))
    O1 = ("call", "Into::into", (("param", 2, fb.arg_names.get(2, "_2")),))
    r2.check(len(calls) == 1 and calls[0][1] == [T1, O1], "forward", "fill forwards text and options unchanged to fill_slow_path", "",
             "fill calls fill_slow_path with %s" % [[describe(x, fb)[:60] for x in c[1]] for c in calls])
    # ... and whatever else fill returns is the shortcut, which agrees with the general path (C05: shortcut rules)
    st = lemmas.status(prog, "C05")
    if st == "ok":
        rep.ok("C09.R3", "crate", "lemma C05 (shortcut rules of fill / wrap_single_line) holds in this run", "evaluated: ok", nontrivial=False)
    else:
        rep.violation("C09.R3", "crate", "lemma:C05", "crate", "lemma C05 is %s in this run: fill or wrap_single_line has a path that "
                      "returns something other than the general path's result" % st)


def _line_ending_uses(prog, rep):
    n = 0
    for key in (WRAP, WSL, SLOW, FSP, "crate::fill::fill"):
        body = prog.body(key)
        if body is None:
            continue
        s = sym_of(body)
        r = Rule(rep, "C09.R4", key, site=body.span)
        D = lambda t: describe(t, body)[:120]
        as_str_terms = set()
        for b, t, cal in body.calls():
            args = [prog.simp(a, body) for a in s.call_args(b)]
            for a in args:
                if a[0] == "field" and a[2] == "line_ending":
                    n += 1
                    r.check(cal.name == "crate::line_ending::LineEnding::as_str", "le-use:%s" % cal.name,
                            "options.line_ending is only converted with as_str()", cal.name,
                            "options.line_ending is passed to %s" % cal.name, site=t["span"])
                if a[0] == "call" and a[1] == "crate::line_ending::LineEnding::as_str":
                    n += 1
                    pos = args.index(a)
                    ok = (cal.name == "str::split" and pos == 1) or (cal.name == "String::push_str" and pos == 1)
                    r.check(ok, "ending-use:%s" % cal.name, "the line ending string is only a split pattern or a join separator",
                            "%s arg %d" % (cal.name, pos), "the line ending string is passed to %s" % cal.name, site=t["span"])
    if n < 4:
        rep.violation("C09.R4", "crate", "floor", "crate", "only %d uses of the line ending found on the wrap/fill path (floor 4)" % n)


def _as_str(prog, rep):
    key = "crate::line_ending::LineEnding::as_str"
    body, arms = models.variant_arms(prog, key)
    r = Rule(rep, "C09.R6", key, site=body.span)
    r.check(arms.get("LF") == ("str", "\n") and arms.get("CRLF") == ("str", "\r\n") and len(arms) == 2, "as-str",
            "LineEnding::as_str maps LF to \"\\n\" and CRLF to \"\\r\\n\"", str(arms),
            "LineEnding::as_str returns %s; expected LF => \"\\n\", CRLF => \"\\r\\n\"" % {k: describe(v, body) for k, v in arms.items()})


def run(prog, rep):
    guarded(rep, "C09.R6", "crate::line_ending::LineEnding::as_str", lambda: _as_str(prog, rep))
    from . import optconv
    optconv.check(prog, rep, 'C09')
    guarded(rep, "C09.R1", "crate", lambda: _use_set(prog, rep))
    guarded(rep, "C09.R2", WSL, lambda: _every_path_pushes(prog, rep))
    guarded(rep, "C09.R3", FSP, lambda: _join(prog, rep))
    guarded(rep, "C09.R4", "crate", lambda: _line_ending_uses(prog, rep))

"""C11 - word finding is lossless and breaks exactly at the specified opportunities."""
from ..sym import sym_of, subterms
from ..engine import AnchorMissing, loop_models
from ..poly import poly, fact_nf, GT0, GE0, EQ0, NE0
from ..paths import loop_system, PathView, fn_paths, contradictory, loop_state_vars, entry_value
from ..describe import describe
from ..engines.schemas import resolve_iter, index_iter_base, range_parts, closure_return_term, closure_env, item_source
from .. import lemmas
from .common import configs_for, has_feature
from .util import Rule, guarded, site_of_block, check_visits_all
from . import models
from .C10 import skip_fact, same_iterator

TITLE = "Word finding is lossless and breaks exactly at the specified opportunities"
TECHNIQUE = "partition-chaining over from_fn closure state, normal forms of Word::from and the ASCII state machine, provenance/control-dependence of the end-of-text opportunity, sibling agreement of the two escape-skipping loops"
DESIGN_REF = "DESIGN.md 4.2, 4.4, 4.6, 4.7, 6/C11"
EXPLANATION = (
    "D: (R1/R2) CHAIN-forward over the captured cut index of both built-in separators: it starts at 0, every yielded word is "
    "Word::from(&line[start..idx]) followed by start := idx with idx an offset of line.char_indices() (Unicode: the original "
    "offset yielded by the index map), the final word is Word::from(&line[start..]) under start < line.len() followed by "
    "start := line.len(), and nothing else moves the index. (R3) Word::from: word = s.trim_end_matches(' '), width = "
    "display_width(word), whitespace = &s[word.len()..], penalty = \"\". (R4) every yielded value is Word::from(piece). "
    "(R5) the positional removal (next_back) on the opportunity sequence removes the end-of-text opportunity: every filter on "
    "the way from unicode_linebreak::linebreaks can only reject an opportunity whose index differs from stripped.len(). "
    "(R6) the filter rejects exactly after '-' and U+00AD. (R7) the index map adds len_utf8(ch) to the stripped index exactly "
    "for chars the skipper declines and yields (original offset, stripped offset before the char); "
    "strip_ansi_escape_sequences pushes exactly those chars; both give the skipper the iterator they advance; linebreaks is "
    "applied to the stripped string and pieces are cut from the original. (R8) ASCII machine: a boundary iff in_whitespace && "
    "ch != ' ', in_whitespace' = (ch == ' '), initial state false. "
    "T: concatenation reproduces the line, whitespace parts are spaces only, words have no trailing space, widths are cached "
    "correctly, no boundary inside an escape sequence. U (not applicable statically): that the opportunities are the UAX #14 "
    "ones (A-lb); the interleaving argument for `find(stripped_idx == idx)` is on paper, reduced to R7."
)
ASSUMPTIONS = ["A-rustc", "A-std (char_indices increasing boundaries, trim_end_matches returns a prefix)",
               "A-lb: linebreaks(s) yields increasing offsets, the last being (s.len(), Mandatory)"]
LEVEL_TEXT = (
    "Decides the structural mechanisms that make word finding lossless (chained cut index in both separators, Word::from's "
    "fields, the ASCII boundary rule, agreement of the strip and index-map loops) and that the only positional removal from "
    "the break-opportunity list can only hit the end-of-text opportunity; conformance of the opportunities to UAX #14 is the "
    "dependency's contract."
)
LEVEL_NOTE = "Trusted: rustc MIR, std iterators, unicode-linebreak's contract (A-lb)."

ASCII = "crate::word_separators::find_words_ascii_space"
UNI = "crate::word_separators::find_words_unicode_break_properties"
STRIP = "crate::word_separators::strip_ansi_escape_sequences"
WFROM = "crate::core::Word::from"
SP = ("char", 0x20)


def configs(tier):
    return configs_for(tier)


def find_index_terms(t):
    return [x for x in subterms(t) if x[0] == "call" and x[1] == "Index::index"]


def chain_closure(prog, rep, rule, cb, idx_ok, wrapper_ok):
    """CHAIN-forward for a from_fn closure emitting pieces of a captured &str."""
    m = models.closure_model(prog, cb, state_types=("usize", "bool"))
    body = cb
    r = Rule(rep, rule, cb.key, site=cb.span)
    D = lambda t: describe(t, body)[:150]
    pieces = []
    for rp in m.returns:
        if rp.ret[0] == "adt" and rp.ret[2] == "Some":
            idxs = find_index_terms(rp.ret)
            if len(idxs) != 1:
                r.check(False, "piece-shape", "", "", "a yielded value contains %d slices (%s)" % (len(idxs), D(rp.ret)))
                return None
            pieces.append((rp, idxs[0]))
    if not pieces:
        raise AnchorMissing("%s: no Some(..) return containing a slice" % cb.key)
    base = pieces[0][1][2][0]
    startv = None
    for rp, ix in pieces:
        kind, st, en = range_parts(ix[2][1])
        if st is not None and st[0] == "upvar":
            startv = st
    if startv is None:
        raise AnchorMissing("%s: no captured cut index used as slice start" % cb.key)
    sname = startv[1]
    r.check(m.env.get(sname) == ("int", 0), "start-init", "the cut index starts at 0", D(m.env.get(sname)) if m.env.get(sname) else "?",
            "the captured cut index starts at %s, not 0" % (D(m.env.get(sname)) if m.env.get(sname) else "?"))
    from ..engines.schemas import subst
    mapping = {("upvar", n): v for n, v in m.env.items() if not n.endswith("#state")}
    parent_base = prog.simp(subst(base, mapping), m.parent) if m.parent is not None else None
    n_range = n_tail = 0
    for rp, ix in pieces:
        site = site_of_block(body, rp.path[-2]) if len(rp.path) > 1 else body.span
        r.check(ix[2][0] == base, "same-base", "all pieces are cut from the same captured str", D(ix[2][0]),
                "pieces are cut from different strings (%s vs %s)" % (D(ix[2][0]), D(base)), site=site, nontrivial=False)
        kind, st, en = range_parts(ix[2][1])
        nxt = rp.next.get(sname)
        if kind == "range":
            n_range += 1
            r.check(st == startv, "piece-start", "a piece starts at the cut index", D(st),
                    "a piece starts at %s instead of the cut index" % D(st), site=site)
            why = idx_ok(en, base)
            r.check(why is not None, "piece-end", "a piece ends at a scanned offset of the same str", why or "",
                    "a piece ends at %s, which is not an offset yielded by scanning the same string" % D(en), site=site)
            r.check(nxt == en, "advance", "after yielding line[start..idx], start := idx", "next(start) = idx",
                    "after yielding a piece ending at %s the cut index becomes %s: text would be lost or repeated" % (D(en), D(nxt)), site=site)
        elif kind == "from":
            n_tail += 1
            r.check(st == startv, "tail-start", "the final piece starts at the cut index", D(st),
                    "the final piece starts at %s instead of the cut index" % D(st), site=site)
            ln = ("call", "str::len", (base,))
            nfs = [fact_nf(f) for f in rp.facts if f[0][0] == "cmp"]
            r.check(GT0(poly(ln) - poly(startv)) in nfs, "tail-guard", "the final piece is yielded iff start < line.len()",
                    "path condition start < len", "the final piece is yielded under %s, expected start < line.len()"
                    % [(k, p.show(D)) for k, p in nfs], site=site)
            r.check(nxt == ln, "tail-advance", "after the final piece start := line.len()", "next(start) = len",
                    "after the final piece the cut index becomes %s instead of line.len(): the tail would be yielded again"
                    % D(nxt), site=site)
            exhausted = any(pol and a[0] == "variant" and a[2] == "None" for a, pol in rp.facts)
            r.check(exhausted, "tail-after-scan", "the final piece is only yielded once the scan is exhausted",
                    "on the None path of the scanning iterator", "the final piece can be yielded before the scan is exhausted", site=site)
        else:
            r.check(False, "piece-kind", "", "", "a piece is cut with an unsupported range %s" % D(ix[2][1]), site=site)
        r.check(wrapper_ok(rp.ret, ix), "wrapper", "the yielded value is Word::from(piece)", D(rp.ret),
                "the yielded value is %s, not Word::from of the piece" % D(rp.ret), site=site)
    for rp in m.returns:
        if rp.ret[0] == "adt" and rp.ret[2] == "None":
            r.check(rp.next.get(sname) == startv, "none-keeps", "returning None leaves the cut index unchanged", "next(start) = start",
                    "the cut index changes to %s on a path that yields nothing" % D(rp.next.get(sname)))
    for lm, trans in m.loops:
        for tr in trans:
            if tr.kind == "back":
                pk = m.state[sname]
                r.check(tr.next[pk] == startv, "continue-keeps", "continuing the scan leaves the cut index unchanged",
                        "next(start) = start", "the cut index changes to %s while scanning without yielding" % D(tr.next[pk]))
    r.check(n_range >= 1 and n_tail == 1, "piece-kinds", "ranged pieces and exactly one final piece", "%d/%d" % (n_range, n_tail),
            "expected in-scan pieces and exactly one final piece, found %d and %d" % (n_range, n_tail), nontrivial=False)
    return m, base, startv, parent_base


def _word_from_wrapper(ret, ix):
    return ret == ("adt", "std::option::Option", "Some", (("0", ("call", WFROM, (ix,))),))


def _ascii(prog, rep):
    parent = prog.need_body(ASCII)
    cbs = prog.closures_of(ASCII)
    if len(cbs) != 1:
        raise AnchorMissing("find_words_ascii_space: expected one closure")
    cb = cbs[0]

    def idx_ok(en, base):
        ib = index_iter_base(prog, cb, en)
        if ib is not None and ib[0] == base and ib[1] == "str::char_indices":
            return "offset of line.char_indices()"
        return None
    res = chain_closure(prog, rep, "C11.R1", cb, idx_ok, _word_from_wrapper)
    if res is None:
        return
    m, base, startv, parent_base = res
    r = Rule(rep, "C11.R1", cb.key, site=cb.span)
    P1 = ("param", 1, parent.arg_names.get(1, "_1"))
    r.check(parent_base == P1, "base-is-line", "pieces are cut from the line parameter", describe(parent_base, parent) if parent_base else "?",
            "the closure cuts pieces from %s, not from the line parameter" % (describe(parent_base, parent) if parent_base else "?"))
    # R8: the ASCII state machine
    r8 = Rule(rep, "C11.R8", cb.key, site=cb.span)
    D = lambda t: describe(t, cb)[:120]
    bools = [n for n, pk in m.state.items() if n != startv[1]]
    if len(bools) != 1:
        raise AnchorMissing("ASCII separator: expected one boolean state capture, found %s" % bools)
    wsn = bools[0]
    wspk = m.state[wsn]
    r8.check(m.env.get(wsn) == ("bool", False), "ws-init", "in_whitespace starts false", D(m.env.get(wsn)),
             "the whitespace state starts as %s" % D(m.env.get(wsn)))
    for lm, trans in m.loops:
        ch = lm.item_proj(1)
        wsv = sym_of(cb).val_entry(wspk, lm.header)
        isp = ("bin", "Eq", ch, SP)
        for tr in trans:
            if tr.kind == "exit" and any(pol and a[0] == "variant" and a[2] == "None" for a, pol in tr.facts):
                continue
            conds = set()
            for a, pol in tr.facts:
                if a[0] == "b" and a[1] == wsv:
                    conds.add(("ws", pol))
                elif a[0] == "cmp" and a[1] == "Eq" and set([a[2], a[3]]) == {ch, SP}:
                    conds.add(("sp", pol))
                elif a[0] == "variant":
                    pass
                else:
                    conds.add(("other", D(a[1])))
            nxt = tr.next[wspk]
            okn = nxt == isp or nxt == ("bin", "Eq", SP, ch)
            if not okn and nxt[0] == "bool" and ("sp", nxt[1]) in conds:
                okn = True       # the constant the path's own test of `ch == ' '` gives
            r8.check(okn, "ws-update", "in_whitespace' = (ch == ' ') on every path", D(nxt),
                     "the whitespace state becomes %s, expected ch == ' '" % D(nxt), site=site_of_block(cb, tr.path[-2]))
            if tr.kind == "exit":
                r8.check(conds == {("ws", True), ("sp", False)}, "boundary-cond", "a word boundary iff in_whitespace && ch != ' '",
                         str(sorted(conds)), "a word is yielded under %s; expected in_whitespace && ch != ' '" % sorted(conds),
                         site=site_of_block(cb, tr.path[-2]))
            else:
                r8.check(conds in ({("ws", False)}, {("ws", True), ("sp", True)}, {("sp", True)}, {("sp", True), ("ws", False)},
                                   {("sp", False), ("ws", False)}),
                         "continue-cond", "the scan continues iff !(in_whitespace && ch != ' ')", str(sorted(conds)),
                         "the scan continues under %s; expected the negation of in_whitespace && ch != ' '" % sorted(conds),
                         site=site_of_block(cb, tr.path[-2]))


def _word_from(prog, rep):
    body = prog.need_body(WFROM)
    s = sym_of(body)
    r = Rule(rep, "C11.R3", WFROM, site=body.span)
    D = lambda t: describe(t, body)[:140]
    S = ("param", 1, body.arg_names.get(1, "_1"))
    ret = prog.simp(s.val((0, ()), body.cfg.returns[0], "term"), body)
    if ret[0] != "adt" or not ret[1].endswith("Word"):
        raise AnchorMissing("Word::from does not return a Word literal: %s" % D(ret))
    f = dict(ret[3])
    T = ("call", "str::trim_end_matches", (S, SP))
    r.check(f.get("word") == T, "word", "word = s.trim_end_matches(' ')", D(f.get("word")),
            "Word::from sets word to %s, expected s.trim_end_matches(' ')" % D(f.get("word")))
    r.check(f.get("width") == ("call", "crate::core::display_width", (f.get("word"),)), "width",
            "width = display_width(word) of the same value as the word field", D(f.get("width")),
            "Word::from caches width %s, which is not display_width of the word field %s" % (D(f.get("width")), D(f.get("word"))))
    ws = f.get("whitespace")
    okws = ws is not None and ws[0] == "call" and ws[1] == "Index::index" and ws[2][0] == S
    kind, st, en = range_parts(ws[2][1]) if okws else (None, None, None)
    r.check(okws and kind == "from" and st == ("call", "str::len", (f.get("word"),)), "whitespace",
            "whitespace = &s[word.len()..]", D(ws), "Word::from sets whitespace to %s, expected &s[word.len()..]" % D(ws))
    r.check(f.get("penalty") == ("str", ""), "penalty", "penalty = \"\"", D(f.get("penalty")),
            "Word::from sets penalty to %s" % D(f.get("penalty")))


def _skipping_loop(prog, rep, rule, body, what):
    """A function/closure that scans chars and calls the skipper: return
    (per-path records) after checking the alias rule."""
    pass


def _strip(prog, rep):
    body = prog.need_body(STRIP)
    s = sym_of(body)
    r = Rule(rep, "C11.R7", STRIP, site=body.span)
    D = lambda t: describe(t, body)[:120]
    T = ("param", 1, body.arg_names.get(1, "_1"))
    res = models.returned_string_root(prog, body)
    lms = [lm for lm in loop_models(prog, body) if lm.kind == "iter"]
    if len(lms) != 1:
        raise AnchorMissing("strip_ansi_escape_sequences: expected one loop")
    lm = lms[0]
    src = resolve_iter(prog, body, lm.next_call[2][0], lm.next_block)
    r.check(src == ("call", "str::chars", (T,)), "source", "strip iterates text.chars()", D(src) if src else "?",
            "strip_ansi_escape_sequences iterates %s" % (D(src) if src else "?"))
    ch = lm.item
    cases = set()
    check_visits_all(r, body, lm, "strip_ansi_escape_sequences' loop")
    for tr in loop_system(prog, body, lm, [], [res]):
        if tr.kind != "back":
            continue
        sk = None
        for f in tr.facts:
            x = skip_fact(f)
            if x and x[0] == ch:
                sk = x
        evs = [(n, a[1]) for (_b, n, a, _r) in tr.events]
        site = site_of_block(body, tr.path[-2])
        if sk is None:
            r.check(False, "no-skip-test", "", "", "a path of the strip loop does not consult the skipper", site=site)
            continue
        cases.add(sk[2])
        al = same_iterator(prog, body, sk[1], ch, sk[3][3][1])
        r.check(al is not None, "alias", "the skipper advances the iterator that produced ch", al or "",
                "the skipper is given %s, not the iterator that yielded ch" % D(sk[1]), site=site)
        exp = [] if sk[2] else [("String::push", ch)]
        r.check(evs == exp, "push:%s" % sk[2], "strip pushes exactly the chars the skipper declines", str([(n, D(a)) for n, a in exp]),
                "when the skipper returns %s the stripped string receives %s" % (sk[2], [(n, D(a)) for n, a in evs]), site=site)
    r.check(cases == {True, False}, "cases", "both skipper outcomes handled", str(cases), "strip does not branch on the skipper", nontrivial=False)
    pre = [(b, n) for b, n in models.mutators_of(prog, body, res) if b not in lm.blocks and n not in ("String::with_capacity", "String::new")]
    r.check(not pre, "only-loop", "the stripped string is only built by the loop", "no other mutation",
            "the stripped string is also modified by %s" % [n for _, n in pre])


def _unicode(prog, rep):
    parent = prog.need_body(UNI)
    ps = sym_of(parent)
    DP = lambda t: describe(t, parent)[:160]
    LINE = ("param", 1, parent.arg_names.get(1, "_1"))
    cbs = {c.key: c for c in prog.closures_of(UNI)}
    # identify closures by role
    idxmap = words = filt = None
    for k, c in cbs.items():
        ret_ty = c.local_ty(0)
        if "Word" in ret_ty:
            words = c
        elif ret_ty.strip() == "bool":
            filt = c
        elif "(usize, usize)" in ret_ty:
            idxmap = c
    if not (idxmap and words):
        raise AnchorMissing("unicode separator: index-map / word closures not found")
    stripped = ("call", STRIP, (LINE,))
    # ---- R7 index map
    r7 = Rule(rep, "C11.R7", idxmap.key, site=idxmap.span)
    mi = models.closure_model(prog, idxmap, state_types=("usize",))
    Di = lambda t: describe(t, idxmap)[:140]
    cap_it = [n for n in mi.caps if n not in mi.state]
    r7.check(any(mi.env.get(n) == ("call", "str::char_indices", (LINE,)) for n in cap_it), "map-source",
             "the index map scans line.char_indices()", str({n: DP(mi.env.get(n)) for n in cap_it}),
             "the index map does not scan line.char_indices(): %s" % {n: DP(mi.env.get(n)) for n in cap_it})
    if len(mi.state) != 1:
        raise AnchorMissing("index map: expected one usize state capture")
    sn = next(iter(mi.state))
    sv = ("upvar", sn)
    r7.check(mi.env.get(sn) == ("int", 0), "map-init", "the stripped offset starts at 0", Di(mi.env.get(sn)),
             "the stripped offset starts at %s" % Di(mi.env.get(sn)))
    cases = set()
    orig_item = None
    for rp in mi.returns:
        if rp.ret[0] == "adt" and rp.ret[2] == "None":
            r7.check(rp.next[sn] == sv, "map-none", "None leaves the state unchanged", "", "the index map changes its state when exhausted")
            continue
        sk = None
        for f in rp.facts:
            x = skip_fact(f)
            if x:
                sk = x
        if sk is None:
            r7.check(False, "map-no-skip", "", "", "a path of the index map does not consult the skipper")
            continue
        ch = sk[0]
        al = same_iterator(prog, idxmap, sk[1], ch, sk[3][3][1])
        r7.check(al is not None, "map-alias", "the skipper advances the iterator that produced ch", al or "",
                 "in the index map the skipper is given %s, not the iterator that yielded ch" % Di(sk[1]))
        cases.add(sk[2])
        oi = ("field", ch[1], "0") if ch[0] == "field" and ch[2] == "1" else None
        orig_item = oi
        want_ret = ("adt", "std::option::Option", "Some", (("0", ("tuple", (oi, sv))),))
        r7.check(rp.ret == want_ret, "map-yield", "the map yields (original offset, stripped offset before the char)", Di(rp.ret),
                 "the index map yields %s, expected (orig_idx, stripped_idx before this char)" % Di(rp.ret))
        if sk[2]:
            r7.check(rp.next[sn] == sv, "map-skip", "escape sequences do not advance the stripped offset", "next = same",
                     "the stripped offset becomes %s across an escape sequence" % Di(rp.next[sn]))
        else:
            want = poly(sv) + poly(("call", "char::len_utf8", (ch,)))
            r7.check(poly(rp.next[sn]) == want, "map-advance", "other chars advance it by len_utf8(ch)", "next = idx + len_utf8(ch)",
                     "the stripped offset becomes %s, expected stripped_idx + ch.len_utf8()" % Di(rp.next[sn]))
    r7.check(cases == {True, False}, "map-cases", "both skipper outcomes handled", str(cases), "the index map does not branch on the skipper", nontrivial=False)

    # ---- R2 chain on the word closure
    mw = models.closure_model(prog, words, state_types=("usize",))
    Dw = lambda t: describe(t, words)[:160]

    def idx_ok(en, base):
        # en = find!(&mut idx_map, pred)?Some.0.0 with idx_map = from_fn(index map closure over base)
        t = en
        if not (t[0] == "field" and t[2] == "0" and t[1][0] == "field" and t[1][2] == "0" and t[1][1][0] == "as"):
            return None
        c = t[1][1][1]
        if not (c[0] == "callm" and c[1] == "Iterator::find" and c[2][0][0] == "mutref"):
            return None
        src = resolve_iter(prog, words, c[2][0], c[3][1])
        if src is None or src[0] != "call" or src[1] != "std::iter::from_fn" or src[2][0][0] != "closure":
            return None
        if src[2][0][1] != idxmap.key:
            return None
        # predicate: |&(_, stripped_idx)| stripped_idx == idx  with idx = item.0 of the opportunities
        cb2, pret = closure_return_term(prog, c[2][1])
        if cb2 is None or not (pret[0] == "bin" and pret[1] == "Eq"):
            return None
        return "original offset yielded by the index map over line.char_indices(), selected by stripped offset"
    res = chain_closure(prog, rep, "C11.R2", words, idx_ok, _word_from_wrapper)
    if res is not None:
        m, base, startv, parent_base = res
        r2 = Rule(rep, "C11.R2", words.key, site=words.span)
        r2.check(parent_base == LINE, "base-is-line", "pieces are cut from the original line", DP(parent_base) if parent_base else "?",
                 "the Unicode separator cuts pieces from %s, not from the original line" % (DP(parent_base) if parent_base else "?"))
    # PROV: linebreaks applied to the stripped string
    r7p = Rule(rep, "C11.R7", UNI, site=parent.span)
    lb = [b for b, t, c in parent.calls() if c.name == "unicode_linebreak::linebreaks"]
    if len(lb) != 1:
        raise AnchorMissing("unicode separator: expected one call to linebreaks")
    lbargs = [prog.simp(a, parent) for a in ps.call_args(lb[0])]
    r7p.check(lbargs[0] == stripped, "linebreaks-on-stripped", "linebreaks is applied to strip_ansi_escape_sequences(line)", DP(lbargs[0]),
              "linebreaks is applied to %s instead of the stripped line" % DP(lbargs[0]), site=site_of_block(parent, lb[0]))

    # ---- R5 / R6: positional removals from the opportunity sequence
    r5 = Rule(rep, "C11.R5", UNI, site=parent.span)
    r6 = Rule(rep, "C11.R6", UNI, site=parent.span)
    removals = 0
    for b, t, c in parent.calls():
        if c.tname in ("DoubleEndedIterator::next_back", "Vec::pop", "Vec::truncate", "Iterator::last", "Iterator::skip",
                       "Iterator::take", "Iterator::step_by") or c.name in ("Vec::pop", "Vec::truncate", "Vec::remove"):
            a0 = ps.call_args(b)[0]
            src = resolve_iter(prog, parent, a0, b) if a0[0] == "mutref" else prog.simp(a0, parent)
            if src is None:
                r5.check(False, "removal-source", "", "", "a positional removal acts on a sequence whose origin cannot be traced",
                         site=site_of_block(parent, b))
                continue
            chain = []
            cur = src
            while cur[0] in ("call", "callm") and cur[2]:
                chain.append(cur)
                if cur[1] == "unicode_linebreak::linebreaks":
                    break
                cur = cur[2][0]
            names = [x[1] for x in chain]
            if "unicode_linebreak::linebreaks" not in names:
                continue
            removals += 1
            site = site_of_block(parent, b)
            r5.check(c.tname == "DoubleEndedIterator::next_back" or c.name == "Vec::pop", "removal-kind",
                     "the removal is next_back() / pop() (drops the last element)", c.tname,
                     "the opportunity sequence is shortened by %s" % c.tname, site=site)
            for x in chain:
                if x[1] in ("Iterator::collect", "IntoIterator::into_iter", "unicode_linebreak::linebreaks", "Vec::into_iter"):
                    continue
                if x[1] == "Iterator::filter" and x[2][1][0] == "closure":
                    fc = prog.body(x[2][1][1])
                    _filter_rule(prog, rep, r5, r6, fc, stripped, site)
                else:
                    r5.check(False, "adapter:%s" % x[1], "", "", "the opportunity sequence passes through %s before its last element "
                             "is removed; it may no longer end with the end-of-text opportunity" % x[1], site=site)
    r5.check(removals == 1, "one-removal", "exactly one positional removal on the opportunity sequence", str(removals),
             "expected exactly one positional removal of the end-of-text opportunity, found %d" % removals, nontrivial=False)


def _filter_rule(prog, rep, r5, r6, fc, stripped, site):
    from ..pred import bool_facts
    from ..idioms import optchar_eq, optchar_in
    from ..engines.schemas import end_char
    m = models.closure_model(prog, fc, state_types=())
    D = lambda t: describe(t, fc)[:140]
    cap = None
    for n, v in m.env.items():
        if v == stripped:
            cap = ("upvar", n)
    idx = ("field", ("param", 2, fc.arg_names.get(2, "_2")), "0")
    rejects = set()
    n_false = 0
    # paths with their verdict; a non-constant boolean result is split into its two outcomes
    outcomes = []
    for rp in m.returns:
        if rp.ret[0] == "bool":
            outcomes.append((rp.ret[1], list(rp.facts)))
        else:
            for pol in (True, False):
                fs = list(rp.facts) + bool_facts(rp.ret, pol)
                if not contradictory(fs):
                    outcomes.append((pol, fs))
    for verdict, facts in outcomes:
        if verdict:
            continue
        n_false += 1
        # a rejecting path must be conditional on idx != stripped.len()
        guard = False
        if cap is not None:
            nfs = {fact_nf(f) for f in facts if f[0][0] == "cmp"}
            for ln in ("str::len", "String::len"):
                L = poly(("call", ln, (cap,)))
                if NE0(L - poly(idx)) in nfs or NE0(poly(idx) - L) in nfs or GT0(L - poly(idx)) in nfs:
                    guard = True
        r5.check(guard, "reject-not-last", "the filter can only reject an opportunity whose index is not stripped.len()",
                 "rejecting path is conditional on idx != stripped.len()",
                 "the filter in front of next_back() can reject the end-of-text opportunity (a rejecting path is not conditional on "
                 "idx != stripped.len()): next_back() then removes a real break opportunity, e.g. for a line ending in '-'",
                 site=fc.span)
        # which char does it reject after?
        for f in facts:
            oc = optchar_in(f)
            if oc is None or not oc[2]:
                continue
            o, codes, _ = oc
            rejects |= codes
            ec = end_char(prog, fc, o)
            ok_src = False
            if ec is not None and ec[0] == "back":
                sl = ec[1]
                if sl[0] == "call" and sl[1] == "Index::index" and sl[2][0] == cap and range_parts(sl[2][1])[0] == "to" \
                        and range_parts(sl[2][1])[2] == idx:
                    ok_src = True
            r6.check(ok_src, "char-before", "the filter inspects the char directly before the opportunity in the stripped text",
                     "stripped[..idx].chars().next_back()", "the filter inspects %s, not the char before the opportunity" % D(o), site=fc.span)
    # accepting paths must not accept after '-' / SHY away from the end: every accepting path that is not
    # the end-of-text case has to refute both characters
    for verdict, facts in outcomes:
        if not verdict:
            continue
        eqs = {}
        for f in facts:
            oc = optchar_in(f)
            if oc is not None:
                for code in oc[1]:
                    if oc[2] and len(oc[1]) > 1:
                        eqs.setdefault(code, None)     # one of several: undecided
                    else:
                        eqs[code] = oc[2]
        at_end = False
        if cap is not None:
            nfs = {fact_nf(f) for f in facts if f[0][0] == "cmp"}
            for ln in ("str::len", "String::len"):
                L = poly(("call", ln, (cap,)))
                if EQ0(L - poly(idx)) in nfs or EQ0(poly(idx) - L) in nfs:
                    at_end = True
        none = any(a[0] == "variant" and ((a[2] == "None") == pol) for a, pol in facts)
        ok = at_end or none or (eqs.get(0x2d) is False and eqs.get(0xad) is False) \
            or any(v is True and k not in (0x2d, 0xad) for k, v in eqs.items())
        r6.check(ok, "accept", "an opportunity away from the end is kept only if the previous char is neither '-' nor U+00AD",
                 "accepting path refutes both", "the filter keeps an opportunity on a path that does not rule out '-' and U+00AD "
                 "before it (conditions %s)" % {"U+%04X" % k: v for k, v in eqs.items()}, site=fc.span)
    r6.check(rejects == {0x2d, 0xad}, "reject-set", "opportunities are suppressed exactly after '-' and U+00AD",
             str(sorted("U+%04X" % x for x in rejects)),
             "the filter suppresses opportunities after %s; expected exactly {'-', U+00AD}" % sorted("U+%04X" % x for x in rejects), site=fc.span)
    r5.check(n_false >= 1, "filter-rejects", "the filter has rejecting paths", str(n_false), "the opportunity filter never rejects", nontrivial=False)


def _dispatch(prog, rep):
    key = "crate::word_separators::WordSeparator::find_words"
    body, arms = models.variant_arms(prog, key)
    r = Rule(rep, "C11.R9", key, site=body.span)
    LINE = ("param", 2, body.arg_names.get(2, "_2"))
    r.check(arms.get("AsciiSpace") == ("call", ASCII, (LINE,)), "ascii-arm", "AsciiSpace dispatches to find_words_ascii_space(line)",
            describe(arms.get("AsciiSpace"), body)[:100] if arms.get("AsciiSpace") else "?",
            "WordSeparator::AsciiSpace.find_words(line) returns %s" % (describe(arms.get("AsciiSpace"), body)[:120] if arms.get("AsciiSpace") else "?"))
    if has_feature(prog, "unicode-linebreak"):
        r.check(arms.get("UnicodeBreakProperties") == ("call", UNI, (LINE,)), "unicode-arm",
                "UnicodeBreakProperties dispatches to find_words_unicode_break_properties(line)", "",
                "WordSeparator::UnicodeBreakProperties.find_words(line) returns %s" % (
                    describe(arms.get("UnicodeBreakProperties"), body)[:120] if arms.get("UnicodeBreakProperties") else "?"))


def run(prog, rep):
    guarded(rep, "C11.R9", "crate::word_separators::WordSeparator::find_words", lambda: _dispatch(prog, rep))
    guarded(rep, "C11.R1", ASCII, lambda: _ascii(prog, rep))
    guarded(rep, "C11.R3", WFROM, lambda: _word_from(prog, rep))
    if has_feature(prog, "unicode-linebreak"):
        guarded(rep, "C11.R7", STRIP, lambda: _strip(prog, rep))
        guarded(rep, "C11.R2", UNI, lambda: _unicode(prog, rep))


def _mk(rule):
    def f(prog):
        from ..engine import Report
        rep = Report("C11")
        rep.set_config(prog.config)
        run(prog, rep)
        return not any(v.rule == rule for v in rep.violations)
    return f


for _r in ("C11.R1", "C11.R2", "C11.R3", "C11.R5", "C11.R6", "C11.R7", "C11.R8", "C11.R9"):
    lemmas.register(_r, _mk(_r))

"""Shared helpers for the property modules."""
from .. import facts as F


def configs_for(tier, need=None):
    cs = F.QUICK_CONFIGS if tier == "quick" else F.THOROUGH_CONFIGS
    return list(cs)


def has_feature(prog, feat):
    c = prog.config
    if c in ("default", "all", "fuzzing"):
        return feat in ("smawk", "unicode-linebreak", "unicode-width") or c == "all"
    if c == "nodefault":
        return False
    if c.startswith("only-"):
        return c[len("only-"):] == feat
    return False


def site_of(body, block):
    return body.blocks[block]["term"]["span"]

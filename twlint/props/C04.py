"""C04 - public functions are total: LEDGER of panic and termination obligations."""
from ..engines.ledger import enumerate_obligations, discharge, cut_describe
from ..tables.ledger_table import T as TABLE
from ..describe import describe
from .. import lemmas
from .common import configs_for, has_feature

EXPLANATION = (
    "Static LEDGER over the MIR (opt-level 0) of every non-derived function, method and closure of the crate, per "
    "feature configuration. D (decided): every Assert terminator (overflow, bounds, div/rem by zero), every call "
    "to a std function with a panic precondition (indexing, split_at, truncate, insert, unwrap, RefCell borrows, "
    "sum, explicit panic), every indirect call and every call into a dependency is enumerated and must be "
    "discharged by a schema whose structural premises are re-checked on the current MIR (constant folding, length "
    "arithmetic bounded by isize::MAX, dominating guards, max(_,k) divisors, member-of-sum, non-empty results, "
    "char-boundary provenance of str indices, scoped RefCell guards) or by a table entry keyed by the rename-"
    "invariant shape of its operands whose named lemmas hold; every loop, recursive cycle and iter::from_fn closure "
    "must be discharged by a termination schema (iterator-driven over a finite std iterator, length growth, "
    "string shrinking, from_fn finiteness). #![forbid(unsafe_code)] is checked from the lint level. "
    "T (derived): no panic edge and no unbounded loop is reachable, hence normal return. "
    "U (not decided): behaviour inside dependencies beyond assumptions A-smawk/A-lb/A-uw (in particular smawk on "
    "non-finite matrices), allocation failure/capacity overflow, Custom callbacks, caller-supplied iterators."
)
ASSUMPTIONS = [
    "A-rustc: nightly MIR at opt-level 0 marks every overflow/bounds/division site with an Assert terminator",
    "A-std: documented contracts of std (lengths <= isize::MAX, char_indices/match_indices/find yield in-range "
    "char-boundary offsets, listed iterators are finite and fused); std callees not in tables/panicky_std.py are total",
    "A-smawk: online_column_minima(size>=1) calls m(minima,i,j) only with i<j<size, minima.len()>i; result[j].0 < j",
    "A-lb: unicode_linebreak::linebreaks yields increasing char-boundary offsets in (0,len]",
    "A-uw: unicode_width::UnicodeWidthChar::width(c) <= len_utf8(c)",
    "A-custom: Custom separators/splitters/algorithms, hyphenation dictionaries and caller-supplied iterators are outside the quantifier",
    "A-mem: allocation failure, capacity overflow and stack exhaustion are excluded by the property",
]

TITLE = "Public functions are total: no panic, hang or overflow error on any input"
TECHNIQUE = "MIR panic/termination obligation ledger with structural discharge schemas (rustc_private driver + dataflow)"
DESIGN_REF = "DESIGN.md 4.1, 6/C04"
LEVEL_TEXT = (
    "Every panic edge (Assert terminators, std calls with panic preconditions, indirect and cross-crate calls) and every "
    "loop/recursion/from_fn closure in the crate's MIR is enumerated per feature configuration and must be discharged by a "
    "structural schema or a hand-confirmed table entry whose lemmas hold; an undischarged obligation is reported with its "
    "site. This decides 'no reachable panic or unbounded loop under the stated assumptions', which is a sufficient "
    "condition for C04 over all inputs; it does not execute the code. Dependency internals, memory limits and Custom "
    "callbacks are assumed (U-clauses)."
)
LEVEL_NOTE = ("Trusted: rustc nightly MIR, std contracts (tables/panicky_std.py lists the panicking callees), assumptions "
              "A-smawk, A-lb, A-uw, A-custom, A-mem; table entries in tables/ledger_table.py are hand proofs tied to named lemmas.")

# vacuity floors: about 3/4 of the obligation counts measured on the pinned tree
FLOORS = {
    "default": {"assert": 38, "call": 44, "loop": 24, "fromfn": 4, "indirect": 3},
    "nodefault": {"assert": 28, "call": 34, "loop": 18, "fromfn": 2, "indirect": 3},
}


def configs(tier):
    return configs_for(tier)


def _mag_lemma(prog):
    from ..engines.mag import cost_is_finite
    if not has_feature(prog, "smawk"):
        return True
    return cost_is_finite(prog)[0]


lemmas.register("C04.R3", _mag_lemma)


def run(prog, rep):
    lemmas.load_all()
    if has_feature(prog, "smawk"):
        from ..engines.mag import cost_is_finite
        from ..engine import AnchorMissing
        try:
            okm, note = cost_is_finite(prog)
        except AnchorMissing as e:
            okm, note = False, "anchor-not-found: %s" % e
        if okm:
            rep.ok("C04.R3", "crate::wrap_algorithms::optimal_fit::wrap_optimal_fit::{closure#0}",
                   "no cost computed for usize-valued widths and penalties is infinite (OverflowError unreachable from WrapAlgorithm::wrap)",
                   "MAG: " + note)
        else:
            rep.violation("C04.R3", "crate::wrap_algorithms::optimal_fit::wrap_optimal_fit::{closure#0}", "magnitude",
                          "src/wrap_algorithms/optimal_fit.rs", "the magnitude analysis cannot show that optimal-fit costs stay finite "
                          "for usize-valued inputs: %s; WrapAlgorithm::wrap's unwrap() may panic" % note)
    obs = enumerate_obligations(prog)
    counts = {}
    table_hits = {}
    for o in obs:
        fam = o.kind.split(":")[0]
        counts[fam] = counts.get(fam, 0) + 1
        rule = "C04.R2" if fam in ("loop", "recursion", "fromfn") else "C04.R1"
        r = discharge(prog, o, TABLE)
        fn = o.body.key
        what = "%s: %s" % (o.kind, o.what)
        if r is None:
            role = "%s|%s" % (o.kind, o.extra.get("cut_shape", o.shape))
            rep.violation(rule, fn, role, o.site,
                          "undischarged %s obligation `%s` in %s: no schema applies and no table entry matches"
                          % (o.kind, cut_describe(prog, o)[:300], fn),
                          cut_shape=o.extra.get("cut_shape"), kind=o.kind)
            continue
        schema, note = r
        if schema == "TABLE":
            ent = note
            k = (fn, o.kind, o.extra.get("cut_shape", o.shape))
            table_hits[k] = table_hits.get(k, 0) + 1
            if table_hits[k] > ent["max"]:
                rep.violation(rule, fn, "%s|%s|extra" % (o.kind, k[2]), o.site,
                              "more %s obligations of shape %s than the %d confirmed by hand"
                              % (o.kind, k[2], ent["max"]))
                continue
            bad = [l for l in ent["lemmas"] if lemmas.status(prog, l) == "failed"]
            if bad:
                rep.violation(rule, fn, "%s|%s|lemma" % (o.kind, k[2]), o.site,
                              "table entry relies on lemma(s) %s which fail on this tree" % ",".join(bad))
                continue
            st = {l: lemmas.status(prog, l) for l in ent["lemmas"]}
            rep.ok(rule, fn, what[:300], "TABLE: %s [lemmas: %s]" % (ent["why"], ", ".join(
                "%s=%s" % kv for kv in st.items())), site=o.site, schema="TABLE")
        else:
            rep.ok(rule, fn, what[:300], "%s: %s" % (schema, note), site=o.site, schema=schema,
                   nontrivial=schema not in ("CONST-FOLD", "CONST-INDEX", "A-MEM"))
        # vacuity floors
    fl = FLOORS.get(prog.config) or FLOORS["default" if has_feature(prog, "smawk") and has_feature(prog, "unicode-linebreak") else "nodefault"]
    for fam, n in fl.items():
        if counts.get(fam, 0) < n:
            rep.violation("C04.FLOOR", "crate", "floor:%s" % fam, "crate",
                          "ledger saw only %d %s obligations in configuration %s, floor is %d (analysis lost its anchors)"
                          % (counts.get(fam, 0), fam, prog.config, n))
        else:
            rep.ok("C04.FLOOR", "crate", "at least %d %s obligations enumerated" % (n, fam),
                   "counted %d" % counts.get(fam, 0), nontrivial=False)
    # C04.R5: forbid(unsafe_code)
    if "unsafe_code=Forbid" in prog.facts.crate_lints:
        rep.ok("C04.R5", "crate", "#![forbid(unsafe_code)] at crate level", "lint level is Forbid", nontrivial=False)
    else:
        rep.violation("C04.R5", "crate", "forbid-unsafe", "src/lib.rs", "unsafe_code is not forbidden at crate level: %s"
                      % prog.facts.crate_lints)


# functions that wrap() / fill() run through: a panic or hang in any of them is a failure of every property that is
# stated "for all inputs" of wrap / fill
WRAP_PATH_PREFIXES = ("crate::wrap::", "crate::fill::fill_slow_path", "crate::fill::fill::", "crate::core::", "crate::word_separators::", "crate::word_splitters::",
                      "crate::wrap_algorithms::", "crate::line_ending::LineEnding", "crate::<core::", "crate::options::",
                      "crate::<options::", "crate::<word_", "crate::<wrap_")
_LEMMA_ACTIVE = [False]


def _lemma_wrappath(prog):
    from ..engine import Report
    if _LEMMA_ACTIVE[0]:
        return True          # evaluated from inside C04 itself (table lemmas): not circular evidence
    _LEMMA_ACTIVE[0] = True
    try:
        rep = Report("C04")
        rep.set_config(prog.config)
        run(prog, rep)
    finally:
        _LEMMA_ACTIVE[0] = False
    known = set()
    try:
        from ..runner import load_known
        known = {k for p_, k, _t in load_known() if p_ == "C04"}
    except Exception:
        pass
    for v in rep.violations:
        fn = v.key.split("|")[1] if "|" in v.key else ""
        if v.key not in known and v.rule in ("C04.R1", "C04.R2", "C04.R3") \
                and (fn.startswith(WRAP_PATH_PREFIXES) or fn == "crate::fill::fill") \
                and "relies on lemma" not in v.message:
            return False
    return True


lemmas.register("C04.WRAPPATH", _lemma_wrappath)

"""C10 - display_width is the sum of character widths outside ANSI sequences."""
from ..sym import sym_of
from ..engine import AnchorMissing, loop_models
from ..poly import poly, fact_nf, GT0, GE0, EQ0, NE0
from ..paths import loop_system, PathView, fn_paths, contradictory, loop_state_vars, entry_value
from ..describe import describe
from ..engines.schemas import resolve_iter, char_item
from .. import lemmas
from .common import configs_for, has_feature
from .util import Rule, guarded, site_of_block, truth_row, row_models, universe, check_visits_all
from . import models

TITLE = "display_width is the sum of character widths outside ANSI sequences"
TECHNIQUE = "transition-system normal form of the accumulation loop + decision structure and constant agreement of the escape skipper"
DESIGN_REF = "DESIGN.md 4.3, 4.4, 4.7, 6/C10"
EXPLANATION = (
    "D: (R1) display_width iterates text.chars(); its accumulator starts at 0, becomes acc + ch_width(ch) exactly on the "
    "path where skip_ansi_escape_sequence(ch, <the same iterator>) is false, is unchanged on the other path, and is "
    "returned. (R2) the skipper's constants are ESC = U+001B, '[' for CSI with final bytes U+0040..=U+007E, ']' for OSC "
    "terminated by U+0007 or '\\\\' preceded by ESC - the values in the property statement. (R3) the skipper's decision "
    "structure: returns false iff ch != ESC, consuming nothing; otherwise consumes one char; if it is '[' consumes through "
    "the first char in the final range; else if it is ']' consumes through BEL or a backslash preceded by ESC, tracking the "
    "previous char; otherwise consumes nothing more; returns true. (R4, without unicode-width) ch_width(ch) = 1 if ch < "
    "U+1100 else 2, and the cut-off is >= U+0080 so ch_width(c) <= len_utf8(c). (R5, with unicode-width) ch_width(ch) = "
    "UnicodeWidthChar::width(ch).unwrap_or(0). "
    "T: sum over non-escape chars; additivity over ESC-free strings (no cross-char state outside the skipper); invariance "
    "under insertion of well-formed sequences; display_width <= byte length given R4 or A-uw. "
    "U (not applicable to static analysis): the unicode-width table values themselves (the exhaustive per-scalar-value half "
    "of the quantifier is a fact about a dependency's data)."
)
ASSUMPTIONS = ["A-rustc", "A-std (Chars iterator)", "A-uw: unicode_width::UnicodeWidthChar::width(c) <= len_utf8(c)"]
LEVEL_TEXT = (
    "Decides that the accumulation loop and the escape skipper implement exactly the function described in the property "
    "(path conditions, updates, consumed characters, constants), for every text; the values of the unicode-width tables are "
    "an external fact and are not decided."
)
LEVEL_NOTE = "Trusted: rustc MIR, std Chars iterator, unicode-width's table (A-uw) for the <= byte-length clause with default features."

DW = "crate::core::display_width"
SK = "crate::core::skip_ansi_escape_sequence"
CW = "crate::core::ch_width"
ESC, LBR, RBR, BEL, BSL = 0x1b, 0x5b, 0x5d, 0x07, 0x5c


def configs(tier):
    return configs_for(tier)


def skip_fact(fact):
    """(ch term, iterator arg term, polarity) if the fact is skip_ansi_escape_sequence(ch, it)."""
    atom, pol = fact
    if atom[0] == "b" and atom[1][0] == "callm" and atom[1][1] == SK and len(atom[1][2]) == 2:
        return atom[1][2][0], atom[1][2][1], pol, atom[1]
    return None


def same_iterator(prog, body, it_arg, ch, at_block):
    """The skipper's iterator argument is (a by_ref().map(second) view of) the iterator whose next() produced ch."""
    from ..engines.schemas import _strip_item, closure_return_term
    call, path = _strip_item(ch)
    if call is None or call[1] not in ("Iterator::next",) or not call[2] or call[2][0][0] != "mutref":
        return None
    src_pk = call[2][0][1]
    if it_arg[0] != "mutref":
        return None
    s = sym_of(body)
    if it_arg[1] == src_pk:
        return "same place"
    # a temporary view: map(by_ref(&mut src), |(_, ch)| ch)
    pk = it_arg[1]
    if pk[0] == "opaque":
        return None
    v = prog.simp(s.val(pk, at_block, "term"), body)
    if v[0] in ("call", "callm") and v[1] == "Iterator::map" and len(v[2]) == 2:
        inner, clo = v[2]
        if (inner[0] == "callm" and inner[1] == "Iterator::by_ref" and inner[2][0] == ("mutref", src_pk)) \
                or inner == ("mutref", src_pk):
            cb, ret = closure_return_term(prog, clo)
            if cb is not None and ret[0] == "field" and ret[1][0] == "param" and ret[2] == "1":
                return "by_ref().map(|(_, ch)| ch) view of the same iterator"
    return None


def _r1(prog, rep):
    body = prog.need_body(DW)
    s = sym_of(body)
    r = Rule(rep, "C10.R1", DW, site=body.span)
    D = lambda t: describe(t, body)[:120]
    T = ("param", 1, body.arg_names.get(1, "_1"))
    lms = [lm for lm in loop_models(prog, body) if lm.kind == "iter"]
    if len(lms) != 1:
        raise AnchorMissing("display_width: expected exactly one loop (found %d)" % len(lms))
    lm = lms[0]
    src = resolve_iter(prog, body, lm.next_call[2][0], lm.next_block)
    r.check(src == ("call", "str::chars", (T,)), "source", "the loop iterates text.chars()", D(src) if src else "?",
            "display_width iterates %s, expected text.chars()" % (D(src) if src else "?"))
    sv = loop_state_vars(body, lm, types=("usize",))
    if len(sv) != 1:
        raise AnchorMissing("display_width: expected one usize accumulator, found %s" % sorted(n for n, _ in sv.values()))
    apk = next(iter(sv))
    acc = s.val_entry(apk, lm.header)
    r.check(entry_value(prog, body, lm, apk) == ("int", 0), "init", "the accumulator starts at 0", "0",
            "the accumulator starts at %s" % D(entry_value(prog, body, lm, apk)))
    ch = lm.item
    cases = set()
    check_visits_all(r, body, lm, "display_width's loop over text.chars()")
    for tr in loop_system(prog, body, lm, [apk], []):
        if tr.kind != "back":
            continue
        sk = None
        for f in tr.facts:
            x = skip_fact(f)
            if x and x[0] == ch:
                sk = x
        nxt = poly(tr.next[apk])
        site = site_of_block(body, tr.path[-2])
        if sk is None:
            r.check(False, "no-skip-test", "", "", "a path through the loop does not test skip_ansi_escape_sequence(ch, ..)", site=site)
            continue
        al = same_iterator(prog, body, sk[1], ch, sk[3][3][1])
        r.check(al is not None, "alias", "the skipper advances the iterator that produced ch", al or "",
                "skip_ansi_escape_sequence is given %s, which is not the iterator that yielded ch: escape bytes would be "
                "measured" % D(sk[1]), site=site)
        cases.add(sk[2])
        if sk[2]:
            r.check(nxt == poly(acc), "skipped", "skipped chars leave the width unchanged", "next(acc) = acc",
                    "on the path where the skipper returns true the width becomes %s" % nxt.show(D), site=site)
        else:
            want = poly(acc) + poly(("call", CW, (ch,)))
            r.check(nxt == want, "measured", "otherwise width' = width + ch_width(ch)", "next(acc) = acc + ch_width(ch)",
                    "on the path where the skipper returns false the width becomes %s, expected width + ch_width(ch)" % nxt.show(D), site=site)
    r.check(cases == {True, False}, "cases", "both skipper outcomes are handled", str(cases),
            "display_width does not branch on the skipper's result", nontrivial=False)
    ret = prog.simp(s.val((0, ()), body.cfg.returns[0], "term"), body)
    r.check(ret == acc, "return", "the accumulated width is returned", D(ret), "display_width returns %s, not the accumulator" % D(ret))


def _skipper(prog, rep):
    body = prog.need_body(SK)
    s = sym_of(body)
    r2 = Rule(rep, "C10.R2", SK, site=body.span)
    r3 = Rule(rep, "C10.R3", SK, site=body.span)
    D = lambda t: describe(t, body)[:120]
    CH = ("param", 1, body.arg_names.get(1, "_1"))
    it = (2, ("deref",))
    esc = ("char", ESC)
    all_loops = loop_models(prog, body)
    in_loop = set()
    for lm in all_loops:
        in_loop |= set(lm.blocks)
    # ---- the loops: which one is the CSI scan, which one the OSC scan -------------
    loop_class = {}
    seen = {"csi": 0, "osc": 0}
    for lm in all_loops:
        if lm.kind != "iter":
            r3.check(False, "loop-kind", "", "", "a loop in the skipper is not driven by next() on the iterator",
                     site=site_of_block(body, lm.header))
            continue
        src = resolve_iter(prog, body, lm.next_call[2][0], lm.next_block)
        r3.check(src is not None and src[0] == "param" and src[1] == 2, "loop-iterator",
                 "the consuming loop advances the caller's iterator", D(src) if src else "?",
                 "a loop in the skipper iterates %s, not the iterator parameter" % (D(src) if src else "?"))
        sv = loop_state_vars(body, lm, types=("char",))
        item = lm.item
        trans = loop_system(prog, body, lm, list(sv.keys()), [])
        is_next_variant = lambda f, lm=lm: f[0][0] == "variant" and f[0][1] == lm.next_call
        back_rows, break_rows = [], []
        if not sv:
            # CSI loop: continue iff !FINAL.contains(ch)
            seen["csi"] += 1
            loop_class[lm.header] = "csi"
            final = ("call", "RangeInclusive::new", (("char", 0x40), ("char", 0x7e)))
            atoms = [(("b", ("call", "RangeInclusive::contains", (final, item))), True)]
            want_break = lambda bits: bits[0]
            feasible = None
            what = "('\\x40'..='\\x7e').contains(&ch)"
        else:
            seen["osc"] += 1
            loop_class[lm.header] = "osc"
            lpk = next(iter(sv))
            last = s.val_entry(lpk, lm.header)
            init = entry_value(prog, body, lm, lpk)
            r3.check(init is not None and init[0] == "char" and init[1] != ESC, "osc-last-init",
                     "the previous-char tracker starts with a non-ESC char", D(init) if init else "?",
                     "the OSC previous-char tracker starts as %s" % (D(init) if init else "?"))
            atoms = [(("cmp", "Eq", ("char", BEL), item), True), (("cmp", "Eq", ("char", BSL), item), True),
                     (("cmp", "Eq", ("char", ESC), last), True)]
            want_break = lambda bits: bits[0] or (bits[1] and bits[2])
            feasible = lambda bits: not (bits[0] and bits[1])
            what = "new == BEL || (new == '\\\\' && last == ESC)"
            for tr in trans:
                if tr.kind == "back":
                    r3.check(tr.next[lpk] == item, "osc-track", "last := new on every continuing path", "next(last) = new",
                             "the previous-char tracker becomes %s instead of the current char" % D(tr.next[lpk]))
        bad = False
        for tr in trans:
            is_some = any(a[0] == "variant" and a[1] == lm.next_call and a[2] == "Some" and pol for a, pol in tr.facts)
            if tr.kind == "exit" and not is_some:
                continue   # the iterator is exhausted
            row = truth_row(tr.facts, atoms, ignore=is_next_variant)
            if row == "infeasible":
                continue
            if row is None:
                bad = True
                r3.check(False, "%s-cond" % loop_class[lm.header], "", "",
                         "the %s loop %s under a condition outside its specification: %s" % (
                             loop_class[lm.header].upper(), "continues" if tr.kind == "back" else "stops",
                             [(D(a[1]) if a[0] == "b" else (a[1], D(a[2]), D(a[3])) if a[0] == "cmp" else a[0], p)
                              for a, p in tr.facts]), site=site_of_block(body, tr.path[-2]))
                continue
            (back_rows if tr.kind == "back" else break_rows).append(row)
        if not bad:
            n = len(atoms)
            got_break = row_models(break_rows, n, feasible)
            got_back = row_models(back_rows, n, feasible)
            r3.check(got_break == universe(n, want_break, feasible), "%s-break" % loop_class[lm.header],
                     "the %s loop stops exactly when %s" % (loop_class[lm.header].upper(), what), "truth table %s" % sorted(got_break),
                     "the %s loop stops for the cases %s of %s; expected exactly: %s" % (
                         loop_class[lm.header].upper(), sorted(got_break), [D(a[0][1]) if a[0][0] == "b" else
                                                                           "%s == %s" % (D(a[0][2]), D(a[0][3])) for a in atoms], what),
                     site=site_of_block(body, lm.header))
            r3.check(got_back == universe(n, lambda bits: not want_break(bits), feasible), "%s-continue" % loop_class[lm.header],
                     "the %s loop continues exactly otherwise" % loop_class[lm.header].upper(), "truth table %s" % sorted(got_back),
                     "the %s loop continues for the cases %s of the same conditions; expected the complement of: %s" % (
                         loop_class[lm.header].upper(), sorted(got_back), what), site=site_of_block(body, lm.header))
    # the CSI scan may also be written as `chars.find(|c| FINAL.contains(c))`: consume through the first final byte
    FINAL = ("call", "RangeInclusive::new", (("char", 0x40), ("char", 0x7e)))
    csi_finds = set()
    for b, t, cal in body.calls():
        if cal.tname == "Iterator::find" and b not in in_loop:
            a = [prog.simp(x, body) for x in s.call_args(b)]
            if len(a) == 2 and a[0][0] == "mutref" and a[0][1] == it:
                from ..engines.schemas import closure_return_term
                cb2, ret2 = closure_return_term(prog, a[1])
                okf = cb2 is not None and ret2[0] == "call" and ret2[1] == "RangeInclusive::contains" and ret2[2][0] == FINAL \
                    and ret2[2][1][0] == "param" and ret2[2][1][1] == 2
                r3.check(okf, "csi-find", "the CSI scan is find(first char in U+0040..=U+007E)", "find(|c| FINAL.contains(c))",
                         "the skipper searches the iterator with a predicate other than ('\\x40'..='\\x7e').contains(c)",
                         site=site_of_block(body, b))
                if okf:
                    csi_finds.add(b)
                    seen["csi"] += 1
    r3.check(seen == {"csi": 1, "osc": 1}, "two-loops", "one CSI and one OSC scan", str(seen),
             "expected one stateless (CSI) and one char-tracking (OSC) scan, found %s" % seen, nontrivial=False)

    # ---- the dispatch around the loops ------------------------------------------------
    kinds = {}
    outside = lambda a, b: a not in in_loop
    for path in fn_paths(body):
        pv = PathView(prog, body, path)
        if contradictory(pv.facts()):
            continue
        facts = pv.facts(edge_filter=outside)
        evs = [(b, n) for b, n, a, rr in pv.events([it])]
        ret = pv.value_before_term((0, ()), path[-1])
        is_esc = None
        for atom, pol in facts:
            if atom[0] == "cmp" and atom[1] == "Eq" and CH in (atom[2], atom[3]):
                other = atom[3] if atom[2] == CH else atom[2]
                if other == esc:
                    is_esc = pol
                else:
                    r2.check(False, "esc-constant", "", "", "the skipper compares ch with %s instead of ESC (U+001B)" % D(other))
        if is_esc is False:
            kinds["not-esc"] = True
            r3.check(ret == ("bool", False) and not evs, "not-esc", "ch != ESC: return false, nothing consumed", "no iterator event",
                     "for ch != ESC the skipper returns %s and touches the iterator %d times; expected false and 0" % (D(ret), len(evs)))
            continue
        if is_esc is None:
            r3.check(False, "esc-test", "", "", "a path through the skipper does not compare ch with ESC")
            continue
        r3.check(ret == ("bool", True), "esc-true", "ch == ESC: return true", "true", "for ch == ESC the skipper returns %s" % D(ret))
        out_evs = [(b, n) for b, n in evs if b not in in_loop]
        nexts = [b for b, n in out_evs if n == "Iterator::next"]
        odd = [n for b, n in out_evs if n not in ("Iterator::next", "IntoIterator::into_iter", "Iterator::by_ref")
               and b not in csi_finds]
        finds = [b for b, n in out_evs if b in csi_finds]
        r3.check(not odd, "events", "outside the loops the iterator is only advanced by next()", "next only",
                 "the skipper also applies %s to the iterator" % odd)
        r3.check(len(nexts) == 1, "one-next", "exactly one char is consumed before dispatching", "one next()",
                 "after ESC the skipper calls next() %d times before dispatching" % len(nexts))
        if len(nexts) != 1:
            continue
        fn = prog.simp(pv.resolve(s.call_term(nexts[0])), body)
        X = ("field", ("as", fn, "Some"), "0")
        intro = {}      # introducer char -> truth on this path
        unknown = []
        none = False
        for atom, pol in facts:
            if atom[0] == "cmp" and atom[1] == "Eq" and CH in (atom[2], atom[3]):
                continue
            if atom[0] == "variant" and atom[1] == fn:
                if (atom[2] == "None") == pol:
                    none = True
                continue
            if atom[0] == "b" and atom[1][0] == "call" and atom[1][1] == "PartialEq::eq":
                a0, a1 = atom[1][2]
                if a0 == fn and a1[0] == "adt" and a1[2] == "Some" and a1[3][0][1][0] == "char":
                    intro[a1[3][0][1]] = pol
                    continue
            if atom[0] == "cmp" and atom[1] == "Eq" and X in (atom[2], atom[3]):
                other = atom[3] if atom[2] == X else atom[2]
                if other[0] == "char":
                    intro[other] = pol
                    continue
            unknown.append((atom, pol))
        r3.check(not unknown, "dispatch-cond", "the dispatch only inspects ch and the char after ESC", "conditions recognised",
                 "the skipper's dispatch depends on an unexpected condition: %s" % [
                     (D(a[1]) if a[0] == "b" else a[0], p) for a, p in unknown[:3]])
        for k in intro:
            if k not in (("char", LBR), ("char", RBR)):
                r2.check(False, "introducer", "", "", "the skipper dispatches on %s; expected '[' (CSI) and ']' (OSC)" % D(k))
        csi = False if none else intro.get(("char", LBR))
        osc = False if none else intro.get(("char", RBR))
        if csi is True and osc is None:
            osc = False
        if osc is True and csi is None:
            csi = False
        hdrs = [loop_class.get(lm.header, "?") for lm in all_loops if lm.header in path]
        in_evs = [n for b, n in evs if b in in_loop]
        if csi is True and osc is False:
            kinds["csi"] = True
            r3.check((hdrs == ["csi"] and not finds) or (not hdrs and len(finds) == 1), "csi-loop",
                     "CSI: the rest is consumed by the final-byte scan", "one scan",
                     "after ESC '[' the skipper runs the loops %s; expected the final-byte scan" % hdrs)
        elif csi is False and osc is True:
            kinds["osc"] = True
            r3.check(hdrs == ["osc"] and not finds, "osc-loop", "OSC: the rest is consumed by the terminator loop", "one loop",
                     "after ESC ']' the skipper runs the loops %s; expected the BEL / ESC-backslash scan" % hdrs)
        elif csi is False and osc is False:
            kinds["other"] = True
            r3.check(not hdrs and not finds and len(evs) == len(out_evs), "other", "neither '[' nor ']': nothing more is consumed", "no loop",
                     "after ESC + other char (or end of input) the skipper consumes more input")
        else:
            r3.check(False, "dispatch", "", "", "the skipper's dispatch on the char after ESC is not decided by '[' and ']' "
                     "(conditions %s)" % {D(k): v for k, v in intro.items()})
    r3.check(set(kinds) == {"not-esc", "csi", "osc", "other"}, "all-branches", "the four branches exist", str(sorted(kinds)),
             "the skipper lacks one of the branches not-ESC / CSI / OSC / other: %s" % sorted(kinds), nontrivial=False)


def _chwidth(prog, rep):
    body = prog.need_body(CW)
    s = sym_of(body)
    D = lambda t: describe(t, body)[:120]
    CH = ("param", 1, body.arg_names.get(1, "_1"))
    ret = prog.simp(s.val((0, ()), body.cfg.returns[0], "term"), body)
    if has_feature(prog, "unicode-width"):
        r = Rule(rep, "C10.R5", CW, site=body.span)
        want = ("call", "Option::unwrap_or", (("call", "UnicodeWidthChar::width", (CH,)), ("int", 0)))
        r.check(ret == want, "table-lookup", "ch_width(ch) = UnicodeWidthChar::width(ch).unwrap_or(0)", D(ret),
                "ch_width returns %s, expected UnicodeWidthChar::width(ch).unwrap_or(0)" % D(ret))
    else:
        r = Rule(rep, "C10.R4", CW, site=body.span)
        ok = False
        cutoff = None
        if ret[0] == "phi":
            vals = {}
            for path in fn_paths(body):
                pv = PathView(prog, body, path)
                v = pv.value_before_term((0, ()), path[-1])
                pf = pv.facts()
                other = [(a, pol) for a, pol in pf if not (a[0] == "cmp" and a[1] in ("Lt", "Le") and CH in (a[2], a[3]))]
                r.check(not other and len(pf) == 1, "only-cutoff", "the width depends on nothing but ch < cut-off", "one comparison per path",
                        "without unicode-width ch_width also depends on %s: the fallback must be 1 below U+1100 and 2 from there on"
                        % [(D(a[1]) if a[0] == "b" else a[0], pol) for a, pol in other][:3])
                for a, pol in pf:
                    if a[0] == "cmp" and a[1] == "Lt" and a[2] == CH and a[3][0] == "char":
                        cutoff = a[3][1]
                        vals[pol] = v
                    if a[0] == "cmp" and a[1] == "Le" and a[3] == CH and a[2][0] == "char":
                        # !(ch < c)  normalised as c <= ch
                        cutoff = a[2][1]
                        vals[not pol] = v
            ok = vals.get(True) == ("int", 1) and vals.get(False) == ("int", 2)
        r.check(ok and cutoff == 0x1100, "fallback-width", "ch_width(ch) = 1 if ch < U+1100 else 2", "cut-off U+%04X" % (cutoff or 0),
                "without unicode-width ch_width must be 1 below U+1100 and 2 from there on (found cut-off %s, values %s)"
                % ("U+%04X" % cutoff if cutoff else "?", D(ret)))
        r.check(cutoff is not None and cutoff >= 0x80, "bound-lemma", "cut-off >= U+0080, hence ch_width(c) <= len_utf8(c)",
                "2 <= len_utf8(c) for c >= U+0080", "the double-width cut-off is below U+0080: a 1-byte char would have width 2 and "
                "display_width could exceed the byte length (C05 shortcut unsound)")


def run(prog, rep):
    guarded(rep, "C10.R1", DW, lambda: _r1(prog, rep))
    guarded(rep, "C10.R3", SK, lambda: _skipper(prog, rep))
    guarded(rep, "C10.R4", CW, lambda: _chwidth(prog, rep))


def _lemma(prog):
    from ..engine import Report
    rep = Report("C10")
    rep.set_config(prog.config)
    run(prog, rep)
    return not rep.violations


lemmas.register("C10", _lemma)

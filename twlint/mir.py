"""Loader for the fact files written by twfacts: bodies, places, callees, CFG.

Everything here is representation; no rule lives in this module.
"""
import re
from functools import lru_cache

_LIFETIME = re.compile(r"'[A-Za-z_][A-Za-z0-9_]*\s*,?\s*")


def strip_generics(path):
    """Remove lifetimes and the empty generic lists they leave behind."""
    s = _LIFETIME.sub("", path)
    s = s.replace("for<> ", "").replace("for<>", "")
    prev = None
    while prev != s:
        prev = s
        s = s.replace("::<>", "").replace("<>", "")
    return s


def ty_head(ty):
    """Short head of a type string: Vec, String, str, [], Option, &mut, ..."""
    t = strip_generics(ty).strip()
    while True:
        if t.startswith("&mut "):
            t = t[5:].strip()
            continue
        if t.startswith("&"):
            t = t[1:].strip()
            continue
        break
    if t.startswith("["):
        return "[]"
    if t.startswith("("):
        return "()"
    if t.startswith("dyn "):
        return "dyn"
    m = re.match(r"([A-Za-z0-9_:]+)", t)
    if not m:
        return t
    head = m.group(1)
    return head.split("::")[-1]


def ty_is_mut_ref(ty):
    return ty.strip().startswith("&mut ")


def ty_is_ref(ty):
    return ty.strip().startswith("&")


class Callee:
    __slots__ = ("tname", "name", "recv", "method", "trait", "krate", "local_key", "path", "full",
                 "gargs", "indirect", "resolved_path", "self_ty", "fn_ty")

    def __init__(self):
        self.name = None
        self.tname = None
        self.recv = None
        self.method = None
        self.trait = None
        self.krate = None
        self.local_key = None
        self.path = None
        self.full = None
        self.gargs = []
        self.indirect = False
        self.resolved_path = None
        self.self_ty = None
        self.fn_ty = None

    def __repr__(self):
        return "Callee(%s recv=%s)" % (self.name, self.recv)


_INT_TYPES = ("u8", "u16", "u32", "u64", "u128", "usize", "i8", "i16", "i32", "i64", "i128", "isize")


def _is_str_ref(ty):
    import re
    return re.match(r"^&\s*('\w+\s+)?str$", (ty or "").strip()) is not None


def _conversion_name(c):
    """Canonical name for the std conversions between &str, String and Cow<str>: all spellings
    of one conversion (From::from, Into::into, to_owned, to_string) get the same name."""
    g = c.gargs or []
    src = tgt = None
    if c.name == "From::from" and len(g) >= 2:
        tgt, src = g[0], g[1]
    elif c.name == "Into::into" and len(g) >= 2:
        src, tgt = g[0], g[1]
    elif c.name in ("ToOwned::to_owned", "ToString::to_string") and g and g[0].strip() == "str":
        return "String::from"
    if c.name == "AddAssign::add_assign" and len(g) >= 2 and ty_head(g[0]) == "String" and not g[0].strip().startswith("&") \
            and _is_str_ref(g[1]):
        return "String::push_str"      # impl AddAssign<&str> for String is push_str
    if src is None:
        return None
    if c.name == "From::from" and src.strip() == "bool" and tgt.strip() in _INT_TYPES:
        return "cast_bool_to:" + tgt.strip()      # usize::from(b) is `b as usize`
    th = ty_head(tgt)
    if th == "String" and _is_str_ref(src):
        return "String::from"
    if th == "Cow" and tgt.rstrip(">").rstrip().endswith("str"):
        if _is_str_ref(src):
            return "Cow::Borrowed"
        if ty_head(src) == "String" and not src.strip().startswith("&"):
            return "Cow::Owned"
    return None


def make_callee(term):
    c = Callee()
    if "fn" not in term:
        c.indirect = True
        c.name = "<indirect>"
        c.fn_ty = term.get("fn_ty")
        return c
    fn = term["fn"]
    c.path = fn["path"]
    c.full = fn.get("full")
    c.gargs = fn.get("args", [])
    c.method = fn.get("method")
    r = fn.get("resolved")
    c.krate = (r or fn).get("krate")
    if r:
        c.resolved_path = r["path"]
        c.self_ty = r.get("self_ty")
        if r.get("local"):
            c.local_key = "crate::" + strip_generics(r["path"])
    if "trait" in fn:
        c.trait = fn["trait"]
        tshort = strip_generics(fn["trait"]).split("::")[-1]
        c.recv = c.gargs[0] if c.gargs else None
        c.name = "%s::%s" % (tshort, c.method)
        c.tname = c.name
        if c.local_key:
            c.name = c.local_key
        elif _conversion_name(c):
            c.name = _conversion_name(c)
        elif c.name in ("Try::branch", "FromResidual::from_residual") and c.recv and ty_head(c.recv) in ("Option", "Result"):
            # the `?` operator: named after the carrier type so that it can be read as a match
            c.name = "%s::%s" % (ty_head(c.recv), c.method)
        if fn.get("local") and not r:
            # unresolved local trait method (generic receiver), e.g. Fragment::width
            c.krate = fn.get("krate")
    elif "self_ty" in fn:
        c.recv = fn["self_ty"]
        head = ty_head(fn["self_ty"])
        if fn.get("local"):
            c.name = "crate::" + strip_generics(fn["path"])
        else:
            c.name = "%s::%s" % (head, c.method)
    else:
        if fn.get("local"):
            c.name = "crate::" + strip_generics(fn["path"])
        else:
            c.name = strip_generics(fn["path"])
    if c.tname is None:
        c.tname = c.name
    return c


class Body:
    def __init__(self, raw, facts):
        self.raw = raw
        self.facts = facts
        self.kind = raw["kind"]
        base = "crate::" + strip_generics(raw["name"])
        if self.kind == "promoted":
            base += "#promoted[%d]" % raw["promoted"]
        self.key = base
        self.name = raw["name"]
        self.span = raw["span"]
        self.arg_count = raw["arg_count"]
        self.locals = raw["locals"]
        self.blocks = raw["blocks"]
        self.parent = ("crate::" + strip_generics(raw["parent"])) if "parent" in raw else None
        self.upvars = raw.get("upvars", [])
        self.vis = raw.get("vis")
        self.item_name = raw.get("item_name")
        self.derived = raw.get("automatically_derived", False)
        self.helper = raw.get("helper", False)
        self.impl_trait = raw.get("impl_trait")
        self.self_ty = raw.get("self_ty")
        # debug names: local -> name for whole-local places; path places for closures
        self.local_names = {}
        self.place_names = {}
        self.arg_names = {}
        for d in raw.get("debug", []):
            pl = d.get("place")
            if pl is None:
                continue
            key = place_key(pl)
            self.place_names[key] = d["name"]
            if not pl["p"]:
                self.local_names.setdefault(pl["l"], d["name"])
            if "arg" in d and not pl["p"]:
                self.arg_names[pl["l"]] = d["name"]
        self._callees = {}
        self._cfg = None

    def __repr__(self):
        return "Body(%s)" % self.key

    def file(self):
        return self.span.split(":")[0]

    def local_ty(self, l):
        return self.locals[l]["ty"]

    def term(self, b):
        return self.blocks[b]["term"]

    def callee(self, b):
        if b not in self._callees:
            t = self.blocks[b]["term"]
            self._callees[b] = make_callee(t) if t["k"] == "call" else None
        return self._callees[b]

    def calls(self):
        """Yield (block, term, callee) for every call in non-cleanup blocks."""
        for i, bl in enumerate(self.blocks):
            if bl["cleanup"]:
                continue
            if bl["term"]["k"] == "call":
                yield i, bl["term"], self.callee(i)

    @property
    def cfg(self):
        if self._cfg is None:
            from .cfg import CFG
            self._cfg = CFG(self)
        return self._cfg

    def place_name(self, place):
        """User-visible name of a place, if the debug info gives one."""
        k = place_key(place)
        if k in self.place_names:
            return self.place_names[k]
        return None


def place_key(pl):
    """Hashable key of a place: (local, (proj...))."""
    proj = []
    for e in pl["p"]:
        if isinstance(e, str):
            proj.append(e)
        elif "f" in e:
            proj.append(("f", e["f"]))
        elif "downcast" in e:
            proj.append(("dc", e["downcast"]))
        elif "index" in e:
            proj.append(("idx", e["index"]))
        elif "cindex" in e:
            proj.append(("cidx", e["cindex"], e["from_end"]))
        elif "subslice" in e:
            proj.append(("sub", e["subslice"], e["to"], e["from_end"]))
        else:
            proj.append(("?", str(e)))
    return (pl["l"], tuple(proj))


def proj_names(pl):
    """Field names along a place's projection (parallel to place_key's proj)."""
    out = []
    for e in pl["p"]:
        if isinstance(e, dict) and "f" in e:
            out.append(e.get("name", str(e["f"])))
        elif isinstance(e, dict) and "downcast" in e:
            out.append(e.get("variant", str(e["downcast"])))
        else:
            out.append(None)
    return out


class Facts:
    def __init__(self, raw, meta=None):
        self.raw = raw
        self.meta = meta or {}
        self.config = raw.get("config") or (meta or {}).get("config")
        self.crate_lints = raw.get("crate_lints", [])
        self.items = raw["items"]
        self.bodies = {}
        self.body_list = []
        from .inline import inline_helpers
        inline_helpers(raw["bodies"])
        for b in raw["bodies"]:
            body = Body(b, self)
            # `const fn` is exported twice (runtime + const MIR); keep the first.
            if body.key in self.bodies:
                continue
            self.bodies[body.key] = body
            self.body_list.append(body)
        self.items_by_path = {}
        for it in self.items:
            self.items_by_path.setdefault("crate::" + strip_generics(it["path"]), it)

    def body(self, key):
        return self.bodies.get(key)

    def find_bodies(self, suffix):
        return [b for b in self.body_list if b.key.endswith(suffix)]

    def closures_of(self, key):
        return [b for b in self.body_list if b.parent == key and b.kind == "closure"]

    def item(self, key):
        return self.items_by_path.get(key)

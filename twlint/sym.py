"""On-demand SSA-style symbolic values over a MIR body.

`Sym(body)` answers "what value does this place hold at this program point",
as a term over parameters, closure upvars, constants, call results and phi
nodes.  Terms are nested tuples (hashable, comparable).

Term grammar (first element is the tag):
  ('int', n) ('float', s) ('bool', b) ('char', cp) ('str', s) ('unit',)
  ('zst', ty) ('bytes', (..)) ('fnref', name) ('cref', key[, promoted])
  ('param', local, name)            function argument (references transparent)
  ('upvar', name)                   closure capture at entry of this invocation
  ('call', name, (args..))          call with no `&mut` argument (pure w.r.t. our model)
  ('callm', name, (args..), site)   call with a `&mut` argument; site=(bodykey, block)
  ('mutref', placekey)              `&mut place` (resolved to its root place)
  ('mut', site, name, placekey)     state of a place after being passed as `&mut` to a call
  ('bin', op, a, b) ('un', op, a) ('cast', kind, a, ty)
  ('ovf', op, a, b)                 result pair of a *WithOverflow op
  ('ovfflag', op, a, b)
  ('field', base, name)             projection that could not be resolved
  ('as', base, variant)             enum downcast
  ('index', base, idx)
  ('discr', base, variants)         variants = ((name, val), ...)
  ('tuple', (items..)) ('array', (items..))
  ('adt', path, variant, ((fname, val)..))
  ('closure', key, ((name, val)..))
  ('update', base, path, val)       base with sub-place `path` replaced
  ('phi', block, placekey)          merge of several definitions at `block`
  ('unknown', why, site)
"""
from .mir import place_key, ty_head, strip_generics, ty_is_mut_ref

# functions returning a `&mut` that points into their first `&mut` argument
_MUT_PASSTHROUGH = {
    "Iterator::by_ref", "Cow::to_mut", "DerefMut::deref_mut", "IndexMut::index_mut",
    "IntoIterator::into_iter",  # for `&mut I`
}


def pk_of(pl):
    """Place key with field names: (local, (elem..)), elem in
    'deref' | ('f', idx, name) | ('dc', idx, variant) | ('idx', local) | (...)."""
    proj = []
    for e in pl["p"]:
        if isinstance(e, str):
            proj.append(e)
        elif "f" in e:
            proj.append(("f", e["f"], e.get("name", str(e["f"]))))
        elif "downcast" in e:
            proj.append(("dc", e["downcast"], e.get("variant", str(e["downcast"]))))
        elif "index" in e:
            proj.append(("idx", e["index"]))
        elif "cindex" in e:
            proj.append(("cidx", e["cindex"], e["from_end"]))
        elif "subslice" in e:
            proj.append(("sub", e["subslice"], e["to"], e["from_end"]))
        else:
            proj.append(("?", str(e)))
    return (pl["l"], tuple(proj))


def _elem_eq(a, b):
    if a == b:
        return True
    if isinstance(a, tuple) and isinstance(b, tuple) and a[0] == b[0] and a[0] in ("f", "dc"):
        return a[1] == b[1]
    if isinstance(a, tuple) and isinstance(b, tuple) and a[0] in ("idx", "idxv", "cidx") \
            and b[0] in ("idx", "idxv", "cidx"):
        return True  # any two element accesses may alias
    return False


def _is_prefix(p, q):
    """projection p is a prefix of projection q (by index identity)."""
    if len(p) > len(q):
        return False
    return all(_elem_eq(a, b) for a, b in zip(p, q))


def overlaps(pk1, pk2):
    if pk1[0] != pk2[0]:
        return False
    return _is_prefix(pk1[1], pk2[1]) or _is_prefix(pk2[1], pk1[1])


def subterms(t):
    seen = set()
    st = [t]
    while st:
        x = st.pop()
        if not isinstance(x, tuple) or not x or x in seen:
            continue
        seen.add(x)
        if not isinstance(x[0], str):
            for y in x:
                if isinstance(y, tuple):
                    st.append(y)
            continue
        yield x
        for y in x:
            if isinstance(y, tuple):
                st.append(y)


def contains(t, pred):
    for s in subterms(t):
        if pred(s):
            return True
    return False


class Sym:
    ENTRY = ("entry",)

    def __init__(self, body, cut=False):
        self.body = body
        self.cut = cut   # stop at user-named locals: they evaluate to ('var', name, ty)
        self.cfg = body.cfg
        self._ptr_cache = {}
        self._defsites = {}
        self._rd = {}
        self._memo = {}
        self._phi_inputs = {}
        self._direct_defs = None
        self._mut_calls = None
        self._lhs_cache = {}

    # ------------------------------------------------------------------
    # constants / operands
    # ------------------------------------------------------------------
    def const_term(self, c):
        if "fn" in c:
            from .mir import make_callee
            cal = make_callee({"fn": c["fn"]})
            return ("fnref", cal.name, cal.local_key)
        if "uneval" in c and "int" not in c and "char" not in c and "bool" not in c \
                and "str" not in c and "float" not in c:
            key = "crate::" + strip_generics(c["uneval"]) if c.get("uneval_local") else strip_generics(c["uneval"])
            if "promoted" in c:
                return ("cref", key, c["promoted"])
            return ("cref", key)
        if "int" in c:
            return ("int", c["int"])
        if "char" in c:
            return ("char", c["char"])
        if "bool" in c:
            return ("bool", c["bool"])
        if "str" in c:
            return ("str", c["str"])
        if "float" in c:
            return ("float", c["float"])
        if "bytes" in c:
            return ("bytes", tuple(c["bytes"]))
        if c.get("zst"):
            if c["ty"] == "()":
                return ("unit",)
            return ("zst", strip_generics(c["ty"]))
        if c.get("lit") == "()":
            return ("unit",)
        return ("unknown", "const:" + c.get("lit", "?"), None)

    def operand(self, op, b, i):
        k = op["k"]
        if k == "const":
            return self.const_term(op)
        if k in ("copy", "move"):
            return self.val(pk_of(op["place"]), b, i)
        return ("unknown", "operand", (self.body.key, b))

    # ------------------------------------------------------------------
    # pointer chasing for `&mut` temporaries (uses direct defs only)
    # ------------------------------------------------------------------
    def direct_defs(self):
        """local -> list of (block, idx|'term', kind, payload) for assignments whose
        lhs is exactly that local (no projection) and call destinations."""
        if self._direct_defs is None:
            dd = {}
            for b in sorted(self.cfg.reach):
                bl = self.body.blocks[b]
                for i, st in enumerate(bl["stmts"]):
                    if st["k"] == "assign" and not st["place"]["p"]:
                        dd.setdefault(st["place"]["l"], []).append((b, i, "assign", st["rv"]))
                t = bl["term"]
                if t["k"] == "call" and not t["dest"]["p"]:
                    dd.setdefault(t["dest"]["l"], []).append((b, "term", "call", t))
            self._direct_defs = dd
        return self._direct_defs

    def ptr_root(self, local, depth=0):
        """If `local` (a `&mut` temp) has a unique direct definition that is a
        (re)borrow chain, return the root place key it points to, else None."""
        if local in self._ptr_cache:
            return self._ptr_cache[local]
        self._ptr_cache[local] = None
        res = None
        if depth < 12:
            if local <= self.body.arg_count and local != 0:
                res = None  # parameters: `(*_p)` is its own root
            else:
                defs = self.direct_defs().get(local, [])
                if len(defs) == 1:
                    b, i, kind, payload = defs[0]
                    if kind == "assign":
                        rv = payload
                        if rv["k"] == "ref" and rv["bk"] == "mut":
                            res = self.resolve_pk(pk_of(rv["place"]), depth + 1)
                        elif rv["k"] == "use" and rv["x"]["k"] in ("copy", "move"):
                            src = pk_of(rv["x"]["place"])
                            if not src[1]:
                                if src[0] <= self.body.arg_count and src[0] != 0:
                                    res = (src[0], ("deref",))
                                else:
                                    res = self.ptr_root(src[0], depth + 1)
                            else:
                                # pointer read out of a structure: closure upvar by-ref etc.
                                res = None
                    elif kind == "call":
                        cal = self.body.callee(b)
                        if cal and cal.name in _MUT_PASSTHROUGH and payload["args"]:
                            a0 = payload["args"][0]
                            if a0["k"] in ("copy", "move") and not a0["place"]["p"] \
                                    and ty_is_mut_ref(a0["place"]["ty"]):
                                l0 = a0["place"]["l"]
                                if l0 <= self.body.arg_count and l0 != 0:
                                    res = (l0, ("deref",))
                                else:
                                    res = self.ptr_root(l0, depth + 1)
                                if res is not None and cal.name == "IndexMut::index_mut":
                                    # the reference points at one element of the root
                                    res = (res[0], tuple(res[1]) + (("idxv", ("unknown", "index_mut", None)),))
        self._ptr_cache[local] = res
        return res

    def resolve_pk(self, pk, depth=0):
        """Rewrite `(*_t).rest` into `root.rest` when `_t` is a `&mut` temp with a
        known pointee."""
        l, proj = pk
        if proj and proj[0] == "deref" and not (l <= self.body.arg_count and l != 0):
            if ty_is_mut_ref(self.body.local_ty(l)):
                root = self.ptr_root(l, depth)
                if root is not None:
                    return (root[0], tuple(root[1]) + tuple(proj[1:]))
        return pk

    def mut_calls(self):
        """block -> list of root place keys passed as `&mut` to the call there."""
        if self._mut_calls is None:
            mc = {}
            for b, t, cal in self.body.calls():
                roots = []
                for a in t["args"]:
                    if a["k"] in ("copy", "move") and ty_is_mut_ref(a["place"]["ty"]):
                        apk = pk_of(a["place"])
                        if not apk[1]:
                            l = apk[0]
                            if l <= self.body.arg_count and l != 0:
                                roots.append((l, ("deref",)))
                            else:
                                r = self.ptr_root(l)
                                if r is not None:
                                    roots.append(r)
                                else:
                                    roots.append(("opaque", l))
                        else:
                            roots.append(self.resolve_pk((apk[0], apk[1] + ("deref",))))
                if roots:
                    mc[b] = roots
            self._mut_calls = mc
        return self._mut_calls

    # ------------------------------------------------------------------
    # definition sites and reaching definitions per place
    # ------------------------------------------------------------------
    def lhs_pk(self, b, i):
        key = (b, i)
        if key not in self._lhs_cache:
            st = self.body.blocks[b]["stmts"][i]
            self._lhs_cache[key] = self.resolve_pk(pk_of(st["place"]))
        return self._lhs_cache[key]

    def defsites(self, pk):
        """All sites that may change `pk`: {block: [idx.. or 'term']} in program order."""
        if pk in self._defsites:
            return self._defsites[pk]
        out = {}
        for b in sorted(self.cfg.reach):
            bl = self.body.blocks[b]
            lst = []
            for i, st in enumerate(bl["stmts"]):
                if st["k"] in ("assign", "setdiscr"):
                    if st["place"]["l"] == pk[0] or (st["place"]["p"] and st["place"]["p"][0] == "deref"):
                        if overlaps(self.lhs_pk(b, i), pk):
                            lst.append(i)
            t = bl["term"]
            if t["k"] == "call":
                hit = False
                if overlaps(self.resolve_pk(pk_of(t["dest"])), pk):
                    hit = True
                else:
                    for r in self.mut_calls().get(b, ()):
                        if r[0] != "opaque" and overlaps(r, pk):
                            hit = True
                if hit and "target" in t:
                    lst.append("term")
            if lst:
                out[b] = lst
        self._defsites[pk] = out
        return out

    def reaching(self, pk):
        """Block-entry reaching definitions for pk: {block: frozenset(defsite)},
        defsite = (block, idx|'term') or ENTRY."""
        if pk in self._rd:
            return self._rd[pk]
        ds = self.defsites(pk)
        nodes = sorted(self.cfg.reach)
        rin = {x: set() for x in nodes}
        rout = {x: set() for x in nodes}
        rin[0] = {self.ENTRY}
        changed = True
        while changed:
            changed = False
            for x in nodes:
                if x != 0 or self.cfg.pred[x]:
                    new = set(rin[x]) if x == 0 else set()
                    for p in self.cfg.pred[x]:
                        if p in rout:
                            new |= rout[p]
                    if x == 0:
                        new |= {self.ENTRY}
                    if new != rin[x]:
                        rin[x] = new
                        changed = True
                if x in ds:
                    o = {(x, ds[x][-1])}
                else:
                    o = rin[x]
                if o != rout[x]:
                    rout[x] = set(o)
                    changed = True
        res = {x: frozenset(v) for x, v in rin.items()}
        self._rd[pk] = res
        return res

    # ------------------------------------------------------------------
    # values
    # ------------------------------------------------------------------
    def initial(self, pk):
        l, proj = pk
        body = self.body
        if l == 0 or l > body.arg_count:
            return ("unknown", "uninit:_%d" % l, (body.key, 0))
        if body.kind == "closure" and l == 1:
            # closure environment: (*_1).k or _1.k
            p = list(proj)
            if p and p[0] == "deref":
                p = p[1:]
            if p and isinstance(p[0], tuple) and p[0][0] == "f":
                nm = p[0][2]
                if nm.startswith("_ref__"):
                    nm = nm[len("_ref__"):]
                # disjoint field capture (edition 2021): `word__whitespace` is `word.whitespace`
                parts = nm.split("__")
                base = ("upvar", parts[0])
                for fld in parts[1:]:
                    base = ("field", base, fld)
                return self.project(base, p[1:], None)
            return ("param", 1, "<env>")
        name = body.arg_names.get(l) or body.local_names.get(l) or ("_%d" % l)
        return self.project(("param", l, name), proj, None)

    def project(self, v, proj, at):
        for e in proj:
            if e == "deref":
                continue
            if not isinstance(e, tuple):
                v = ("field", v, str(e))
                continue
            tag = e[0]
            if tag == "f":
                idx, name = e[1], e[2]
                if v[0] == "tuple" and idx < len(v[1]):
                    v = v[1][idx]
                elif v[0] == "array" and idx < len(v[1]):
                    v = v[1][idx]
                elif v[0] in ("adt", "closure"):
                    fields = v[3] if v[0] == "adt" else v[2]
                    if idx < len(fields):
                        v = fields[idx][1]
                    else:
                        v = ("field", v, name)
                elif v[0] == "ovf":
                    v = ("bin", v[1], v[2], v[3]) if idx == 0 else ("ovfflag", v[1], v[2], v[3])
                elif v[0] == "update":
                    sub = v[2]
                    if sub and _elem_eq(sub[0], e):
                        if len(sub) == 1:
                            v = v[3]
                        else:
                            v = ("update", ("field", v[1], name), sub[1:], v[3])
                    else:
                        v = self.project(v[1], (e,), at)
                elif v[0] == "as" and v[1][0] == "adt" and v[1][2] == v[2]:
                    inner = v[1]
                    v = inner[3][idx][1] if idx < len(inner[3]) else ("field", v, name)
                else:
                    v = ("field", v, name)
            elif tag == "dc":
                v = ("as", v, e[2])
            elif tag == "idxv":
                v = ("index", v, e[1])
            elif tag == "idx":
                b, i = at if at else (0, 0)
                v = ("index", v, self.val((e[1], ()), b, i))
            elif tag == "cidx":
                v = ("index", v, ("int", e[1]) if not e[2] else ("fromend", e[1]))
            else:
                v = ("field", v, str(e))
        return v

    def val(self, pk, b, i):
        """Value of place pk just before statement i of block b (i == len(stmts)
        means before the terminator; i == 'after' means after the terminator)."""
        pk = self.resolve_pk(pk)
        if any(isinstance(e, tuple) and e[0] == "idx" for e in pk[1]):
            pk = (pk[0], tuple(("idxv", self.val((e[1], ()), b, i)) if isinstance(e, tuple) and e[0] == "idx"
                               else e for e in pk[1]))
        if pk[1] and pk[1][0] == "deref":
            lty = self.body.local_ty(pk[0]).strip()
            if lty.startswith("&") and not lty.startswith("&mut") and not (
                    self.body.kind == "closure" and pk[0] == 1):
                # reading through a shared reference: the referent's value is the
                # value the reference was created from (no writes through `&`)
                base = self.val((pk[0], ()), b, i)
                return self.project(base, pk[1][1:], (b, i))
        nst = len(self.body.blocks[b]["stmts"])
        if i == "after":
            pos = nst + 1
        elif i == "term":
            pos = nst
        else:
            pos = i
        key = (pk, b, pos)
        if key in self._memo:
            return self._memo[key]
        if self.cut and pk[0] in self.body.local_names and pk[0] > self.body.arg_count:
            from .mir import ty_head
            v = ("var", self.body.local_names[pk[0]], ty_head(self.body.local_ty(pk[0])))
            v = self.project(v, pk[1], (b, pos))
            self._memo[key] = v
            return v
        ds = self.defsites(pk).get(b, [])
        # latest def in this block before pos
        best = None
        for d in ds:
            dpos = nst if d == "term" else d
            if dpos < pos:
                best = d
        if best is not None:
            v = self.value_of_def(pk, (b, best))
        else:
            v = self.val_entry(pk, b)
        self._memo[key] = v
        return v

    def _between(self, d, b):
        """Blocks on paths from (after) d to (before) b that avoid d, b's entry
        included when b lies on a cycle avoiding d."""
        key = ("between", d, b)
        if key in self._memo:
            return self._memo[key]
        fwd = set()
        st = [x for x in self.cfg.succ[d] if x != d]
        while st:
            x = st.pop()
            if x in fwd:
                continue
            fwd.add(x)
            for y in self.cfg.succ[x]:
                if y != d and y not in fwd:
                    st.append(y)
        bwd = set()
        st = [p for p in self.cfg.pred[b] if p != d and p in self.cfg.reach]
        while st:
            x = st.pop()
            if x in bwd:
                continue
            bwd.add(x)
            for y in self.cfg.pred[x]:
                if y != d and y not in bwd and y in self.cfg.reach:
                    st.append(y)
        res = fwd & bwd
        self._memo[key] = res
        return res

    def val_entry(self, pk, b):
        key = (pk, b, -1)
        if key in self._memo:
            return self._memo[key]
        if b == 0:
            v = self.initial(pk)
            self._memo[key] = v
            return v
        d = self.cfg.idom(b)
        if d is None:
            v = ("unknown", "noidom", (self.body.key, b))
        else:
            ds = self.defsites(pk)
            mid = self._between(d, b)
            if not any(x in ds for x in mid):
                v = self.val(pk, d, "after")
            else:
                v = ("phi", b, pk)
        self._memo[key] = v
        return v

    def phi_inputs(self, phi):
        """{pred_block: value} for a ('phi', block, pk) term (computed lazily)."""
        _, b, pk = phi
        if (b, pk) not in self._phi_inputs:
            ins = {}
            for p in self.cfg.pred[b]:
                if p in self.cfg.reach:
                    ins[p] = self.val(pk, p, "after")
            self._phi_inputs[(b, pk)] = ins
        return self._phi_inputs[(b, pk)]

    def value_of_def(self, pk, d):
        if d == self.ENTRY:
            return self.initial(pk)
        key = ("def", pk, d)
        if key in self._memo:
            return self._memo[key]
        self._memo[key] = ("unknown", "cyclic-def", (self.body.key, d[0]))
        b, i = d
        bl = self.body.blocks[b]
        if i == "term":
            t = bl["term"]
            dest = self.resolve_pk(pk_of(t["dest"]))
            if overlaps(dest, pk):
                v = self._fit(pk, dest, self.call_term(b), b, "term")
            else:
                cal = self.body.callee(b)
                v = ("mut", (self.body.key, b), cal.name if cal else "?", pk)
        else:
            st = bl["stmts"][i]
            lhs = self.lhs_pk(b, i)
            if st["k"] == "setdiscr":
                v = ("unknown", "setdiscr", (self.body.key, b))
            else:
                v = self._fit(pk, lhs, self.rvalue(st["rv"], b, i), b, i)
        self._memo[key] = v
        return v

    def _fit(self, pk, lhs, rv_val, b, i):
        """Value of pk after `lhs = rv_val` where lhs overlaps pk."""
        if len(lhs[1]) <= len(pk[1]):
            return self.project(rv_val, pk[1][len(lhs[1]):], (b, i if i != "term" else len(self.body.blocks[b]["stmts"])))
        prev = self.val(pk, b, i if i != "term" else "term")
        return ("update", prev, tuple(lhs[1][len(pk[1]):]), rv_val)

    def rvalue(self, rv, b, i):
        k = rv["k"]
        if k == "use":
            return self.operand(rv["x"], b, i)
        if k == "ref":
            pk = self.resolve_pk(pk_of(rv["place"]))
            if rv["bk"] == "mut":
                return ("mutref", pk)
            return self.val(pk, b, i)
        if k == "rawptr":
            return self.val(self.resolve_pk(pk_of(rv["place"])), b, i)
        if k == "bin":
            l = self.operand(rv["l"], b, i)
            r = self.operand(rv["r"], b, i)
            op = rv["op"]
            if op.endswith("WithOverflow"):
                return ("ovf", op[:-len("WithOverflow")], l, r)
            if op.endswith("Unchecked"):
                op = op[:-len("Unchecked")]
            return ("bin", op, l, r)
        if k == "un":
            x = self.operand(rv["x"], b, i)
            if rv["op"] == "PtrMetadata":
                return ("call", "[]::len", (x,))
            return ("un", rv["op"], x)
        if k == "cast":
            x = self.operand(rv["x"], b, i)
            ck = rv["ck"]
            if ck.startswith("PointerCoercion") or ck == "PtrToPtr":
                return x
            return ("cast", ck, x, strip_generics(rv["ty"]))
        if k == "discr":
            v = self.val(pk_of(rv["place"]), b, i)
            variants = tuple((x["name"], x["val"]) for x in rv.get("variants", []))
            return ("discr", v, variants)
        if k == "agg":
            ops = tuple(self.operand(o, b, i) for o in rv["ops"])
            ak = rv["ak"]
            if ak == "tuple":
                return ("tuple", ops)
            if ak == "array":
                return ("array", ops)
            if ak == "adt":
                names = rv.get("fields", [])
                return ("adt", strip_generics(rv["adt"]), rv["variant"],
                        tuple((names[j] if j < len(names) else str(j), o) for j, o in enumerate(ops)))
            if ak == "closure":
                names = rv.get("fields", [])
                return ("closure", "crate::" + strip_generics(rv["closure"]),
                        tuple((names[j] if j < len(names) else str(j), o) for j, o in enumerate(ops)))
            return ("unknown", "agg", (self.body.key, b))
        if k == "repeat":
            return ("repeat", self.operand(rv["x"], b, i), rv["n"])
        return ("unknown", "rvalue:" + k, (self.body.key, b))

    def call_args(self, b):
        t = self.body.blocks[b]["term"]
        n = len(self.body.blocks[b]["stmts"])
        return tuple(self.operand(a, b, n) for a in t["args"])

    def call_term(self, b):
        key = ("call", b)
        if key in self._memo:
            return self._memo[key]
        t = self.body.blocks[b]["term"]
        cal = self.body.callee(b)
        args = self.call_args(b)
        if cal.indirect:
            n = len(self.body.blocks[b]["stmts"])
            f = self.operand(t["indirect"], b, n)
            v = ("callm", "<indirect>", (f,) + args, (self.body.key, b))
        elif any(isinstance(a, tuple) and a and a[0] == "mutref" for a in args):
            v = ("callm", cal.name, args, (self.body.key, b))
        else:
            v = ("call", cal.name, args)
        self._memo[key] = v
        return v

    # ------------------------------------------------------------------
    # branch conditions
    # ------------------------------------------------------------------
    def switch_value(self, a):
        t = self.body.blocks[a]["term"]
        n = len(self.body.blocks[a]["stmts"])
        return self.operand(t["discr"], a, n)

    def edge_literals(self, a, s):
        """Literals that hold when control goes a -> s through a switch:
        list of ('is', term, valuestr) / ('isnot', term, (valuestr..))."""
        t = self.body.blocks[a]["term"]
        if t["k"] != "switch":
            return []
        labels = self.cfg.edge_label.get((a, s), [])
        v = self.switch_value(a)
        vals = [x for x, _ in t["targets"]]
        d = t["discr"]
        ty = d.get("ty") or (d.get("place") or {}).get("ty") or ""
        if labels == ["otherwise"]:
            return [("isnot", v, tuple(vals), ty)]
        if "otherwise" in labels:
            return []
        if len(labels) == 1:
            return [("is", v, labels[0], ty)]
        if len(labels) > 1:
            # several switch values share the target (an or-pattern)
            return [("isin", v, tuple(labels), ty)]
        return []

    def guards(self, b):
        """Conjunction of literals implied by reaching block b (edge dominance)."""
        out = []
        for a, s, _lab in self.cfg.dominating_edges(b):
            out.extend(self.edge_literals(a, s))
        return out

    def path_literals(self, path):
        out = []
        for a, s in zip(path, path[1:]):
            out.extend(self.edge_literals(a, s))
        return out


_SYM_CACHE = {}


def sym_of(body, cut=False):
    k = (id(body), cut)
    if k not in _SYM_CACHE:
        _SYM_CACHE[k] = Sym(body, cut=cut)
    return _SYM_CACHE[k]


# ----------------------------------------------------------------------
# pretty printer (for reports)
# ----------------------------------------------------------------------
def show(t, depth=0):
    if not isinstance(t, tuple) or not t:
        return repr(t)
    if depth > 12:
        return "..."
    tag = t[0]
    d = depth + 1
    if tag == "int":
        return str(t[1])
    if tag == "float":
        return t[1] + "f"
    if tag == "bool":
        return "true" if t[1] else "false"
    if tag == "char":
        return repr(chr(t[1])) if t[1] < 0x110000 else "char(%d)" % t[1]
    if tag == "str":
        return '"%s"' % t[1].encode("unicode_escape").decode()
    if tag == "unit":
        return "()"
    if tag == "param":
        return t[2]
    if tag == "upvar":
        return "^" + t[1]
    if tag == "call":
        return "%s(%s)" % (t[1], ", ".join(show(a, d) for a in t[2]))
    if tag == "callm":
        return "%s!(%s)@bb%s" % (t[1], ", ".join(show(a, d) for a in t[2]), t[3][1])
    if tag == "mutref":
        return "&mut " + show_pk(t[1])
    if tag == "mut":
        return "%s<after %s@bb%s>" % (show_pk(t[3]), t[2], t[1][1])
    if tag == "bin":
        return "(%s %s %s)" % (show(t[2], d), t[1], show(t[3], d))
    if tag == "un":
        return "%s(%s)" % (t[1], show(t[2], d))
    if tag == "cast":
        return "(%s as %s)" % (show(t[2], d), t[3])
    if tag == "field":
        return "%s.%s" % (show(t[1], d), t[2])
    if tag == "as":
        return "(%s as %s)" % (show(t[1], d), t[2])
    if tag == "index":
        return "%s[%s]" % (show(t[1], d), show(t[2], d))
    if tag == "discr":
        return "discr(%s)" % show(t[1], d)
    if tag in ("tuple", "array"):
        return "(%s)" % ", ".join(show(x, d) for x in t[1])
    if tag == "adt":
        return "%s::%s{%s}" % (t[1].split("::")[-1], t[2], ", ".join("%s: %s" % (n, show(v, d)) for n, v in t[3]))
    if tag == "closure":
        return "closure<%s>{%s}" % (t[1].split("::", 1)[-1], ", ".join("%s: %s" % (n, show(v, d)) for n, v in t[2]))
    if tag == "phi":
        return "phi(bb%s,%s)" % (t[1], show_pk(t[2]))
    if tag == "update":
        return "%s with %s=%s" % (show(t[1], d), show_proj(t[2]), show(t[3], d))
    if tag == "ovf":
        return "ovf(%s %s %s)" % (show(t[2], d), t[1], show(t[3], d))
    if tag == "ovfflag":
        return "ovfflag(%s %s %s)" % (show(t[2], d), t[1], show(t[3], d))
    if tag == "fnref":
        return "fn " + str(t[1])
    if tag == "cref":
        return "const " + "#".join(str(x) for x in t[1:])
    if tag == "unknown":
        return "?%s" % t[1]
    return "%s(%s)" % (tag, ", ".join(show(x, d) if isinstance(x, tuple) else repr(x) for x in t[1:]))


def show_proj(proj):
    out = ""
    for e in proj:
        if e == "deref":
            out = "*" + out
        elif isinstance(e, tuple) and e[0] == "f":
            out += "." + str(e[2])
        elif isinstance(e, tuple) and e[0] == "dc":
            out += " as " + str(e[2])
        elif isinstance(e, tuple) and e[0] == "idx":
            out += "[_%d]" % e[1]
        else:
            out += "." + str(e)
    return out


def show_pk(pk):
    if pk and pk[0] == "opaque":
        return "<opaque _%s>" % pk[1]
    return "_%d%s" % (pk[0], show_proj(pk[1]))

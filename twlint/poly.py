"""Polynomial normal forms with rational coefficients over opaque atoms.

poly(term) -> Poly: dict {monomial: Fraction}, monomial = sorted tuple of atoms
(with repetition for powers).  Atoms are terms that are not +,-,* or numeric
constants; int->float casts are transparent (NF decides the real-valued
function, not f64 rounding).
"""
from fractions import Fraction


class Poly:
    __slots__ = ("m",)

    def __init__(self, m=None):
        self.m = {k: v for k, v in (m or {}).items() if v != 0}

    @staticmethod
    def const(c):
        return Poly({(): Fraction(c)})

    @staticmethod
    def atom(a):
        return Poly({(a,): Fraction(1)})

    def __add__(self, o):
        m = dict(self.m)
        for k, v in o.m.items():
            m[k] = m.get(k, 0) + v
        return Poly(m)

    def __neg__(self):
        return Poly({k: -v for k, v in self.m.items()})

    def __sub__(self, o):
        return self + (-o)

    def __mul__(self, o):
        m = {}
        for k1, v1 in self.m.items():
            for k2, v2 in o.m.items():
                k = tuple(sorted(k1 + k2, key=repr))
                m[k] = m.get(k, 0) + v1 * v2
        return Poly(m)

    def __eq__(self, o):
        return isinstance(o, Poly) and self.m == o.m

    def __hash__(self):
        return hash(frozenset(self.m.items()))

    def is_const(self):
        return all(k == () for k in self.m)

    def const_value(self):
        return self.m.get((), Fraction(0))

    def atoms(self):
        out = set()
        for k in self.m:
            out.update(k)
        return out

    def key(self):
        return tuple(sorted(((k, v) for k, v in self.m.items()), key=repr))

    def show(self, show_atom=repr):
        if not self.m:
            return "0"
        parts = []
        for k, v in sorted(self.m.items(), key=lambda kv: repr(kv[0])):
            mon = "*".join(show_atom(a) for a in k)
            if not k:
                parts.append(str(v))
            elif v == 1:
                parts.append(mon)
            elif v == -1:
                parts.append("-" + mon)
            else:
                parts.append("%s*%s" % (v, mon))
        return " + ".join(parts).replace("+ -", "- ")


def poly(t, atom_map=None):
    """Normal form of an arithmetic term.  `atom_map(term)` may rewrite atoms
    (return a replacement term) before they are frozen."""
    if not isinstance(t, tuple):
        return Poly.atom(t)
    tag = t[0]
    if tag == "int":
        return Poly.const(t[1])
    if tag == "float":
        try:
            return Poly.const(Fraction(t[1]))
        except (ValueError, ZeroDivisionError):
            return Poly.atom(t)
    if tag == "bool":
        return Poly.const(1 if t[1] else 0)
    if tag == "bin" and t[1] in ("Add", "Sub", "Mul"):
        a = poly(t[2], atom_map)
        b = poly(t[3], atom_map)
        if t[1] == "Add":
            return a + b
        if t[1] == "Sub":
            return a - b
        return a * b
    if tag == "bin" and t[1] == "Div":
        b = poly(t[3], atom_map)
        if b.is_const() and b.const_value() != 0:
            a = poly(t[2], atom_map)
            return a * Poly.const(1 / b.const_value())
    if tag == "un" and t[1] == "Neg":
        return -poly(t[2], atom_map)
    if tag == "cast" and t[1] in ("IntToFloat", "IntToInt", "FloatToFloat"):
        return poly(t[2], atom_map)
    if atom_map is not None:
        r = atom_map(t)
        if r is not None and r != t:
            return poly(r, atom_map)
    if tag == "call" and t[1] in _LEN_CANON and len(t[2]) == 1:
        # the length of a Vec and of the slice it derefs to, of a String and of its str, are the same quantity
        t = ("call", _LEN_CANON[t[1]], t[2])
    return Poly.atom(t)


_LEN_CANON = {"[]::len": "Vec::len", "String::len": "str::len"}
_FLOAT_CALLS = ("Fragment::", "f64::")


def _has_float_marker(t, depth=0):
    if not isinstance(t, tuple) or not t or depth > 40:
        return False
    if t[0] == "float":
        return True
    if t[0] == "cast" and t[1] in ("IntToFloat", "FloatToFloat"):
        return True
    if t[0] in ("call", "callm") and isinstance(t[1], str) and t[1].startswith(_FLOAT_CALLS):
        return True
    return any(_has_float_marker(x, depth + 1) for x in t if isinstance(x, tuple))


def is_int_poly(p):
    """No atom of the polynomial is (or contains) a floating point quantity."""
    return not any(_has_float_marker(a) for a in p.atoms())


def canon(kind, p, floaty=False):
    """Canonical comparison normal form.  For integer (unsigned) polynomials:
    p > 0 becomes p - 1 >= 0; x == 0 / x != 0 for a single unsigned atom x become
    -x >= 0 / x - 1 >= 0; eq0/ne0 get a canonical sign."""
    if kind in ("eq0", "ne0"):
        if p.m:
            first = sorted(p.m.items(), key=lambda kv: repr(kv[0]))[0]
            if first[1] < 0:
                p = -p
    if floaty or not is_int_poly(p):
        return (kind, p)
    if kind == "gt0":
        return ("ge0", p - Poly.const(1))
    if kind in ("eq0", "ne0"):
        items = list(p.m.items())
        if len(items) == 1 and len(items[0][0]) == 1 and abs(items[0][1]) == 1:
            x = Poly({items[0][0]: Fraction(1)})
            return ("ge0", -x) if kind == "eq0" else ("ge0", x - Poly.const(1))
    return (kind, p)


def GT0(p):
    return canon("gt0", p)


def GE0(p):
    return canon("ge0", p)


def EQ0(p):
    return canon("eq0", p)


def NE0(p):
    return canon("ne0", p)


def cmp_nf(op, a, b, atom_map=None):
    # a comparison with a float literal (or any float-marked operand) is a float comparison even if the other side
    # is an opaque term: no integer canonicalisation (x > 1.0 is not x >= 2)
    return canon(*_cmp_nf_raw(op, a, b, atom_map), floaty=_has_float_marker(a) or _has_float_marker(b))


def _cmp_nf_raw(op, a, b, atom_map=None):
    """Normal form of a comparison: ('gt0'|'ge0'|'eq0', Poly) with a canonical sign
    for eq0.  a > b  ->  gt0(a-b);  a < b -> gt0(b-a); a >= b -> ge0(a-b) ..."""
    pa, pb = poly(a, atom_map), poly(b, atom_map)
    if op == "Gt":
        return ("gt0", pa - pb)
    if op == "Lt":
        return ("gt0", pb - pa)
    if op == "Ge":
        return ("ge0", pa - pb)
    if op == "Le":
        return ("ge0", pb - pa)
    if op in ("Eq", "Ne"):
        d = pa - pb
        # canonical sign: first monomial coefficient positive
        if d.m:
            first = sorted(d.m.items(), key=lambda kv: repr(kv[0]))[0]
            if first[1] < 0:
                d = -d
        return ("eq0" if op == "Eq" else "ne0", d)
    raise ValueError(op)


def negate_cmp(nf):
    k, p = nf
    if k == "gt0":
        return canon("ge0", -p)
    if k == "ge0":
        return canon("gt0", -p)
    if k == "eq0":
        return canon("ne0", p)
    return canon("eq0", p)


def fact_nf(fact, atom_map=None):
    """Normal form of a pred.py fact ((atom, polarity))."""
    atom, pol = fact
    if atom[0] == "cmp":
        raw = _cmp_nf_raw(atom[1], atom[2], atom[3], atom_map)
        fl = _has_float_marker(atom[2]) or _has_float_marker(atom[3])
        if pol:
            return canon(*raw, floaty=fl)
        k, p = raw
        return canon(*{"gt0": ("ge0", -p), "ge0": ("gt0", -p), "eq0": ("ne0", p), "ne0": ("eq0", p)}[k], floaty=fl)
    return (atom, pol)


def truth_rows(nfs, atoms):
    """Partial assignment {atom index: bool} described by a set of comparison normal forms
    over the given atom NFs; None if a fact mentions none of the atoms (unknown condition)."""
    row = {}
    for nf in nfs:
        hit = False
        for i, a in enumerate(atoms):
            if nf == a:
                row[i] = True
                hit = True
            elif nf == negate_cmp(a):
                row[i] = False
                hit = True
        if not hit:
            return None
    return row


def models_of(rows, n):
    """All total assignments over n atoms consistent with at least one partial row."""
    import itertools
    out = set()
    for bits in itertools.product([False, True], repeat=n):
        for r in rows:
            if all(bits[i] == v for i, v in r.items()):
                out.add(bits)
                break
    return out

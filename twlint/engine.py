"""Program-level helpers shared by all rules: term simplification, accessor
inlining, constant resolution, call graph, loop models, reports."""
import json
import os
import time

from .mir import Facts, ty_head, strip_generics
from .sym import Sym, sym_of, subterms, pk_of, show
from .describe import describe


class Program:
    def __init__(self, facts):
        self.facts = facts
        self.config = facts.config
        self._acc = {}
        self._const = {}
        self._cg = None

    # ---- bodies ----
    def body(self, key):
        return self.facts.body(key)

    def need_body(self, key):
        b = self.facts.body(key)
        if b is None:
            raise AnchorMissing("function %s not found in configuration %s" % (key, self.config))
        return b

    def bodies(self, include_derived=False):
        for b in self.facts.body_list:
            if b.kind == "promoted":
                continue
            if b.derived and not include_derived:
                continue
            if b.helper:
                continue   # analysed inlined into its callers (twlint/inline.py)
            yield b

    def closures_of(self, key):
        return self.facts.closures_of(key)

    def sym(self, body):
        return sym_of(body)

    # ---- constants ----
    def const_value(self, cref):
        """Evaluate ('cref', key[, promoted]) through the const's own MIR body."""
        if cref in self._const:
            return self._const[cref]
        key = cref[1]
        if len(cref) == 3:
            key = key + "#promoted[%d]" % cref[2]
        body = self.facts.body(key)
        v = cref
        if body is not None and body.cfg.returns:
            s = sym_of(body)
            r = body.cfg.returns[0]
            v = self.simp(s.val((0, ()), r, "term"), body)
        self._const[cref] = v
        return v

    # ---- accessor summaries ----
    def accessor(self, key):
        """If local function `key` returns a call-free, phi-free term over its
        parameters, return (body, term); else None."""
        if key in self._acc:
            return self._acc[key]
        self._acc[key] = None
        body = self.facts.body(key)
        res = None
        if body is not None and len(body.cfg.returns) == 1 and body.kind in ("fn", "assoc_fn"):
            s = sym_of(body)
            r = body.cfg.returns[0]
            t = s.val((0, ()), r, "term")
            bad = False
            for st in subterms(t):
                if st[0] in ("call", "callm", "phi", "unknown", "mut", "mutref", "upvar"):
                    bad = True
                    break
            if not bad:
                res = (body, t)
        self._acc[key] = res
        return res

    def local_key_of_call(self, name, args):
        """Body key for a call term name if it is a crate function."""
        if name.startswith("crate::"):
            return name
        return None

    def simp(self, t, body=None, _depth=0):
        """Bottom-up simplification: transparent derefs, accessor inlining,
        constant resolution, into_iter stripping."""
        if not isinstance(t, tuple) or not t or _depth > 60:
            return t
        tag = t[0]
        if tag == "fnref" and len(t) > 2 and t[2] and self.body(t[2]) is not None and self.body(t[2]).kind == "fn":
            # a crate fn used as a function value is a closure without captures
            return ("closure", t[2], ())
        if tag in ("int", "float", "bool", "char", "str", "unit", "param", "upvar", "zst",
                   "fnref", "unknown", "bytes"):
            return t
        if tag == "cref":
            v = self.const_value(t)
            return v
        if tag == "phi" and body is not None:
            pk = t[2]
            if isinstance(pk, tuple) and len(pk) == 2 and isinstance(pk[1], tuple):
                cut = next((i for i, e in enumerate(pk[1]) if isinstance(e, tuple) and e[0] == "dc"), None)
                if cut is not None:
                    # the payload of a merged enum value is the payload of the merge
                    from .sym import sym_of as _so
                    whole = ("phi", t[1], (pk[0], pk[1][:cut]))
                    return self.simp(_so(body).project(whole, pk[1][cut:], None), body, _depth + 1)
            g = self._phi_unwrap_or(t, body)
            return g if g is not None else t
        if tag == "phi" or tag == "mutref" or tag == "mut":
            return t
        S = lambda x: self.simp(x, body, _depth + 1)
        if tag in ("call", "callm"):
            name = t[1]
            args = tuple(S(a) for a in t[2])
            if tag == "call":
                if name == "Deref::deref" and len(args) == 1:
                    # local Deref impls are resolved by name below; std ones are transparent
                    return args[0]
                if name in ("IntoIterator::into_iter",) and len(args) == 1:
                    return args[0]
                if name in ("Clone::clone", "ToOwned::to_owned#never") and len(args) == 1:
                    return args[0]
                if name in ("Borrow::borrow", "AsRef::as_ref", "String::as_str", "Vec::as_slice") and len(args) == 1:
                    return args[0]
                if name in ("std::cmp::max", "usize::max", "Ord::max", "core::cmp::max") and len(args) == 2:
                    return ("call", "Ord::max", tuple(sorted(args, key=repr)))
                if name in ("std::cmp::min", "usize::min", "Ord::min", "core::cmp::min") and len(args) == 2:
                    return ("call", "Ord::min", tuple(sorted(args, key=repr)))
                if name == "Option::unwrap_or" and len(args) == 2:
                    # copied()/cloned()/as_ref() do not change the value the default replaces
                    args = (_opt_transparent(args[0]), args[1])
                if name == "Option::unwrap_or" and len(args) == 2 and args[1] == ("int", 0) and args[0][0] == "call" \
                        and args[0][1] == "usize::checked_sub":
                    return ("call", "usize::saturating_sub", args[0][2])
                if name.startswith("cast_bool_to:") and len(args) == 1:
                    return ("cast", "IntToInt", args[0], name.split(":", 1)[1])
                if name in ("Cow::Borrowed", "Cow::Owned") and len(args) == 1:
                    # Cow::from(x) is the variant constructor
                    return ("adt", "std::borrow::Cow", name.split("::")[1], (("0", args[0]),))
                if name == "Option::from_residual" and len(args) == 1:
                    # `opt?` on the None path returns None
                    return ("adt", "std::option::Option", "None", ())
                if name.startswith("crate::<") and name.endswith(" as std::clone::Clone>::clone") and len(args) == 1:
                    cbody = self.body(name)
                    if cbody is not None and cbody.derived:
                        return args[0]       # #[derive(Clone)]: a field-wise copy
                acc = self.accessor(name) if name.startswith("crate::") else None
                if acc is not None:
                    abody, term = acc
                    return S(_subst_params(term, args))
                return ("call", name, args)
            if name == "std::mem::replace" and len(args) == 2 and args[1] in (("call", "String::new", ()), ("call", "Vec::new", ()),
                                                                            ("str", "")):
                return ("callm", "std::mem::take", (args[0],), t[3])      # replace(x, Default::default()) is take(x)
            return ("callm", name, args, t[3])
        if tag == "bin":
            op, a, b = t[1], S(t[2]), S(t[3])
            if op == "Gt":
                op, a, b = "Lt", b, a
            elif op == "Ge":
                op, a, b = "Le", b, a
            elif op in ("Eq", "Ne"):
                a, b = sorted([a, b], key=repr)
            return ("bin", op, a, b)
        if tag == "un":
            x = S(t[2])
            if t[1] == "Not" and x[0] == "bool":
                return ("bool", not x[1])
            return ("un", t[1], x)
        if tag == "cast":
            return ("cast", t[1], S(t[2]), t[3])
        if tag == "field":
            base = S(t[1])
            if t[2] == "0" and base[0] == "as" and base[2] == "Some" and base[1][0] == "call" \
                    and base[1][1] in ("str::strip_prefix", "str::strip_suffix") and len(base[1][2]) == 2:
                # payload of x.strip_prefix(p) is x[len(p)..]; of x.strip_suffix(p) is x[..len(x) - len(p)]
                x, pat = base[1][2]
                if pat[0] == "char":
                    plen = ("int", 1 if pat[1] < 0x80 else 2 if pat[1] < 0x800 else 3 if pat[1] < 0x10000 else 4)
                else:
                    plen = ("call", "str::len", (pat,))
                if base[1][1] == "str::strip_prefix":
                    return ("call", "Index::index", (x, ("adt", "std::ops::RangeFrom", "RangeFrom", (("start", plen),))))
                return ("call", "Index::index", (x, ("adt", "std::ops::RangeTo", "RangeTo",
                                                     (("end", ("bin", "Sub", ("call", "str::len", (x,)), plen)),))))
            if t[2] == "0" and base[0] == "as" and base[2] == "Continue" and base[1][0] == "call" \
                    and base[1][1] == "Option::branch" and len(base[1][2]) == 1:
                # `opt?` is `match opt { Some(v) => v, None => return None }`
                return S(("field", ("as", base[1][2][0], "Some"), "0"))
            if t[2] == "0" and base[0] == "as" and base[2] == "Some" and base[1][0] == "call" \
                    and base[1][1] == "Option::map" and len(base[1][2]) == 2 and base[1][2][1][0] == "closure":
                # payload of x.map(f) is f(payload of x)
                from .engines.schemas import closure_return_term, subst
                cb, ret = closure_return_term(self, base[1][2][1])
                if cb is not None:
                    inner = ("field", ("as", _opt_transparent(base[1][2][0]), "Some"), "0")
                    params = [st for st in subterms(ret) if st[0] == "param" and st[1] == 2]
                    mapping = {p: inner for p in params}
                    return S(subst(ret, mapping))
            if base[0] == "adt":
                for n, v in base[3]:
                    if n == t[2]:
                        return v
            if base[0] == "call" and base[1] == "str::split_at" and len(base[2]) == 2 and t[2] in ("0", "1"):
                # s.split_at(i).0 is s[..i] and .1 is s[i..] (same value, same panic condition)
                w, i = base[2]
                if t[2] == "0":
                    return ("call", "Index::index", (w, ("adt", "std::ops::RangeTo", "RangeTo", (("end", i),))))
                return ("call", "Index::index", (w, ("adt", "std::ops::RangeFrom", "RangeFrom", (("start", i),))))
            if base[0] == "tuple":
                try:
                    k = int(t[2])
                    if k < len(base[1]):
                        return base[1][k]
                except ValueError:
                    pass
            if base[0] == "update":
                sub = base[2]
                if len(sub) >= 1 and isinstance(sub[0], tuple) and sub[0][0] == "f" and sub[0][2] == t[2]:
                    if len(sub) == 1:
                        return base[3]
                elif len(sub) >= 1 and isinstance(sub[0], tuple) and sub[0][0] == "f":
                    return S(("field", base[1], t[2]))
            return ("field", base, t[2])
        if tag == "as":
            base = S(t[1])
            base = _opt_transparent(base)
            return ("as", base, t[2])
        if tag == "index":
            base, ix = S(t[1]), S(t[2])
            if base[0] in ("array", "tuple") and ix[0] == "int" and 0 <= ix[1] < len(base[1]):
                return base[1][ix[1]]
            return ("index", base, ix)
        if tag == "discr":
            base = S(t[1])
            base = _opt_transparent(base)
            if base[0] == "call" and base[1] == "Option::branch" and len(base[2]) == 1:
                ren = {"Continue": "Some", "Break": "None"}
                return S(("discr", base[2][0], tuple((ren.get(n, n), v) for n, v in t[2])))
            if base[0] == "call" and base[1] in ("Option::map",) and len(base[2]) == 2:
                base = _opt_transparent(base[2][0])
            return ("discr", base, t[2])
        if tag in ("tuple", "array"):
            return (tag, tuple(S(x) for x in t[1]))
        if tag == "adt":
            return ("adt", t[1], t[2], tuple((n, S(v)) for n, v in t[3]))
        if tag == "closure":
            return ("closure", t[1], tuple((n, S(v)) for n, v in t[2]))
        if tag == "update":
            return ("update", S(t[1]), t[2], S(t[3]))
        if tag in ("ovf", "ovfflag"):
            return (tag, t[1], S(t[2]), S(t[3]))
        if tag == "repeat":
            return ("repeat", S(t[1]), t[2])
        return t

    def _phi_unwrap_or(self, t, body):
        """`match o { Some(x) => x, None => d }` (a two-way merge whose Some arm carries the payload of
        the scrutinee) is o.unwrap_or(d)."""
        memo = self.__dict__.setdefault("_phi_uo", {})
        key = (body.key, t)
        if key in memo:
            return memo[key]
        memo[key] = None            # also stops recursion through the facts below
        if body.cfg.loop_of_header(t[1]) is not None:
            return None
        from .sym import sym_of as _sym_of
        from .pred import lit_to_facts
        s = _sym_of(body)
        ins = s.phi_inputs(t)
        if len(ins) != 2:
            return None
        arms = []
        for p, v in ins.items():
            facts = []
            for lit in s.guards(p):
                lit2 = (lit[0], self.simp(lit[1], body), lit[2]) + tuple(lit[3:])
                facts.extend(lit_to_facts(lit2))
            arms.append((p, self.simp(v, body), facts))
        _UNSTRIP = {"str::starts_with": "str::strip_prefix", "str::ends_with": "str::strip_suffix"}
        for (p1, v1, f1), (p2, v2, f2) in (arms, arms[::-1]):
            for a, pol in f1:
                if a[0] == "b" and pol and a[1][0] == "call" and a[1][1] in _UNSTRIP and (a, False) in f2:
                    # `match x.strip_suffix(p) { Some(rest) => rest, None => d }` (its variant facts read as ends_with)
                    o = ("call", _UNSTRIP[a[1][1]], a[1][2])
                    if v1 == self.simp(("field", ("as", o, "Some"), "0"), body):
                        r = self.simp(("call", "Option::unwrap_or", (o, v2)), body)
                        memo[key] = r
                        return r
                if a[0] == "variant" and a[2] == "Some" and pol:
                    o = a[1]
                    none = any(b[0] == "variant" and b[1] == o and ((b[2] == "None") == q) for b, q in f2)
                    if none and v1 == ("field", ("as", o, "Some"), "0"):
                        r = self.simp(("call", "Option::unwrap_or", (o, v2)), body)
                        memo[key] = r
                        return r
        # integer max / min / saturating_sub written as if/else
        from .poly import poly as _poly, fact_nf, negate_cmp, GE0, GT0, is_int_poly, Poly
        (p1, v1, f1), (p2, v2, f2) = arms
        n1 = {fact_nf(f) for f in f1 if f[0][0] == "cmp"}
        n2 = {fact_nf(f) for f in f2 if f[0][0] == "cmp"}
        dist = [n for n in n1 if negate_cmp(n) in n2]
        # slice lookups with a default: `if i < v.len() { v[i] } else { d }` is v.get(i).unwrap_or(d),
        # `if v.len() == 0 { d } else { v[v.len() - 1] }` is v.last().unwrap_or(d)
        for (x, y, nx) in ((v1, v2, n1), (v2, v1, n2)):
            if x[0] == "index" and len(x) == 3:
                vec, i = x[1], x[2]
                for ln in ("[]::len", "Vec::len"):
                    L = _poly(("call", ln, (vec,)))
                    other = n2 if nx is n1 else n1
                    is_last = _poly(i) == L - Poly.const(1)
                    cond = GE0(L - Poly.const(1)) if is_last else GT0(L - _poly(i))
                    if cond in nx and negate_cmp(cond) in other:
                        if is_last:
                            r = ("call", "Option::unwrap_or", (("call", "[]::last", (vec,)), y))
                        else:
                            r = ("call", "Option::unwrap_or", (("call", "[]::get", (vec, i)), y))
                        r = self.simp(r, body)
                        memo[key] = r
                        return r
        if dist:
            a, b = _poly(v1), _poly(v2)
            # f64: `if x > c { x } else { c }` with a finite constant c is x.max(c) for every x, NaN included
            # (NaN fails the test and f64::max ignores a NaN operand); likewise min
            for (x, c, nx) in ((v1, v2, n1), (v2, v1, n2)):
                if c[0] == "float" and x[0] != "float":
                    d = _poly(x) - _poly(c)
                    r = None
                    if ("gt0", d) in nx or ("ge0", d) in nx:
                        r = ("call", "f64::max", (x, c))
                    elif ("gt0", -d) in nx or ("ge0", -d) in nx:
                        r = ("call", "f64::min", (x, c))
                    if r is not None:
                        r = self.simp(r, body)
                        memo[key] = r
                        return r
            if is_int_poly(a) and is_int_poly(b) and not (v1[0] in ("adt", "tuple", "float") or v2[0] in ("adt", "tuple", "float")):
                for n in dist:
                    r = None
                    if n in (GE0(a - b), GT0(a - b)):
                        r = ("call", "Ord::max", tuple(sorted((v1, v2), key=repr)))
                    elif n in (GE0(b - a), GT0(b - a)):
                        r = ("call", "Ord::min", tuple(sorted((v1, v2), key=repr)))
                    for (x, y, nx) in ((v1, v2, n), (v2, v1, negate_cmp(n))):
                        # x = p - q on the arm where p >= q (or p > q), y = 0 on the other
                        if y == ("int", 0) and x[0] == "bin" and x[1] == "Sub":
                            d = _poly(x[2]) - _poly(x[3])
                            if nx in (GE0(d), GT0(d)):
                                r = ("call", "usize::saturating_sub", (x[2], x[3]))
                    if r is not None:
                        r = self.simp(r, body)
                        memo[key] = r
                        return r
        return None

    # local Deref impl for Word is registered as an accessor under the call name
    # "Deref::deref" only when the receiver resolves to a crate impl; sym emits the
    # trait name, so the property rules use `deref_word` below where needed.

    # ---- call graph ----
    def call_graph(self):
        """{body key: set(callee body keys)} incl. closures created in the body."""
        if self._cg is None:
            cg = {}
            for b in self.facts.body_list:
                if b.kind == "promoted":
                    continue
                out = set()
                for blk, t, cal in b.calls():
                    if cal.local_key and self.facts.body(cal.local_key):
                        out.add(cal.local_key)
                for c in self.facts.closures_of(b.key):
                    out.add(c.key)
                cg[b.key] = out
            self._cg = cg
        return self._cg

    def reachable_from(self, roots):
        cg = self.call_graph()
        seen = set()
        st = list(roots)
        while st:
            x = st.pop()
            if x in seen or x not in cg:
                continue
            seen.add(x)
            st.extend(cg[x])
        return seen


_OPT_TRANSPARENT = {"Option::copied", "Option::cloned", "Option::as_ref", "Option::as_deref", "Option::as_mut"}


def _opt_transparent(t):
    """Option adapters that keep the variant and (up to a reference) the payload."""
    while t[0] == "call" and t[1] in _OPT_TRANSPARENT and len(t[2]) == 1:
        t = t[2][0]
    return t


def _subst_params(term, args):
    if not isinstance(term, tuple) or not term:
        return term
    if term[0] == "param":
        idx = term[1] - 1
        if 0 <= idx < len(args):
            return args[idx]
        return term
    return tuple(_subst_params(x, args) if isinstance(x, tuple) else x for x in term)


class AnchorMissing(Exception):
    pass


# ----------------------------------------------------------------------
# loop models
# ----------------------------------------------------------------------
class LoopModel:
    """An iterator-driven loop: header block calls `next` on an iterator place;
    the Some-edge enters the body, the None-edge leaves."""

    def __init__(self, prog, body, lp):
        self.prog = prog
        self.body = body
        self.lp = lp
        self.header = lp["header"]
        self.blocks = lp["body"]
        self.kind = "other"
        self.next_block = None
        self.next_call = None
        self.iter_pk = None
        self.item = None
        self.source = None
        self.some_block = None
        self.none_block = None
        self._analyse()

    def _analyse(self):
        body, s = self.body, sym_of(self.body)
        h = self.header
        # the `next` call may be in the header or in a straight-line successor chain
        b = h
        for _ in range(4):
            t = body.blocks[b]["term"]
            if t["k"] == "call":
                cal = body.callee(b)
                if cal.tname in ("Iterator::next", "DoubleEndedIterator::next_back") and "target" in t:
                    self.next_block = b
                    break
                if "target" in t and len(body.cfg.succ[b]) == 1:
                    b = t["target"]
                    continue
                break
            if t["k"] == "goto":
                b = t["target"]
                continue
            break
        if self.next_block is None:
            return
        nb = self.next_block
        call = s.call_term(nb)
        self.next_call = call
        sw = body.blocks[nb]["term"]["target"]
        st = body.blocks[sw]["term"]
        if st["k"] != "switch":
            return
        dv = s.switch_value(sw)
        if dv[0] != "discr" or dv[1] != call:
            return
        for succ in body.cfg.succ[sw]:
            lits = s.edge_literals(sw, succ)
            for lit in lits:
                if lit[0] == "is" and lit[2] == "1":
                    self.some_block = succ
                elif lit[0] == "is" and lit[2] == "0":
                    self.none_block = succ
                elif lit[0] == "isnot" and lit[2] == ("1",):
                    self.none_block = succ
                elif lit[0] == "isnot" and lit[2] == ("0",):
                    self.some_block = succ
        if self.some_block is None:
            return
        self.kind = "iter"
        self.item = ("field", ("as", call, "Some"), "0")
        arg0 = call[2][0] if call[2] else None
        if arg0 and arg0[0] == "mutref":
            self.iter_pk = arg0[1]
            # value of the iterator place on loop entry
            ents = self.lp["entries"]
            if ents:
                src = s.val(self.iter_pk, ents[0], "after")
                self.source = self.prog.simp(src, body)
        self.switch_block = sw

    def item_proj(self, *path):
        t = ("as", self.next_call, "Some")
        t = ("field", t, "0")
        for p in path:
            t = ("field", t, str(p))
        return t


def loop_models(prog, body):
    return [LoopModel(prog, body, lp) for lp in body.cfg.loops]


def iter_chain(src):
    """Decompose an iterator source term into (adapters outermost-first, root).
    e.g. enumerate(iter(x)) -> (['Iterator::enumerate', '[]::iter'], x, extras)."""
    chain = []
    extras = []
    t = src
    while isinstance(t, tuple) and t and t[0] in ("call", "callm") and t[2]:
        chain.append(t[1])
        extras.append(t[2][1:])
        t = t[2][0]
        if t[0] == "mutref":
            break
    return chain, t, extras


# ----------------------------------------------------------------------
# reports
# ----------------------------------------------------------------------
class Finding:
    def __init__(self, rule, key, site, message, config, detail=None):
        self.rule = rule
        self.key = key
        self.site = site
        self.message = message
        self.config = config
        self.detail = detail or {}

    def to_json(self):
        return {"rule": self.rule, "key": self.key, "site": self.site, "message": self.message,
                "config": self.config, "detail": self.detail}


class Report:
    """Collects obligations (with their discharge) and violations for one
    property over several configurations."""

    def __init__(self, prop):
        self.prop = prop
        self.obligations = []     # dicts
        self.violations = []      # Finding
        self.config = None
        self.functions = set()
        self.rules_run = {}

    def set_config(self, c):
        self.config = c

    def ok(self, rule, func, what, how, nontrivial=True, site=None, **extra):
        rec = {"rule": rule, "config": self.config, "function": func, "obligation": what,
               "discharged_by": how, "nontrivial": nontrivial}
        if site:
            rec["site"] = site
        rec.update(extra)
        self.obligations.append(rec)
        self.functions.add(func)
        self.rules_run[rule] = self.rules_run.get(rule, 0) + 1

    def violation(self, rule, func, role, site, message, **detail):
        key = "%s|%s|%s" % (rule, func, role)
        self.violations.append(Finding(rule, key, site, message, self.config, detail))
        rec = {"rule": rule, "config": self.config, "function": func, "obligation": role,
               "discharged_by": None, "nontrivial": True, "site": site, "violation": message}
        self.obligations.append(rec)
        self.functions.add(func)
        self.rules_run[rule] = self.rules_run.get(rule, 0) + 1

    def anchor_missing(self, rule, func, why):
        self.violation(rule, func, "anchor-not-found", func, "anchor-not-found: " + why)

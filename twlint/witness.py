"""Compile-time witnesses (DESIGN.md 4.8): a doc-test crate path-depending on
the repository under analysis, compiled (never run) with
`cargo +nightly test --doc --offline`."""
import hashlib
import os
import re
import shutil
import subprocess

from . import facts as F

_CACHE = {}


def run_witnesses(repo=None, features="default"):
    """{witness name: True/False} or raises BrokenCheck."""
    repo = repo or F.REPO
    th = F.tree_hash(repo)
    key = (os.path.abspath(repo), th, features)
    if key in _CACHE:
        return _CACHE[key]
    tag = hashlib.sha256(os.path.abspath(repo).encode()).hexdigest()[:8]
    wdir = os.path.join(F.WORK, "witness-%s" % tag)
    os.makedirs(os.path.join(wdir, "src"), exist_ok=True)
    stamp = os.path.join(wdir, "result-%s-%s.txt" % (th, features))
    src = os.path.join(F.VERIF, "witness", "lib.rs")
    shutil.copy2(src, os.path.join(wdir, "src", "lib.rs"))
    with open(os.path.join(wdir, "Cargo.toml"), "w") as fh:
        fh.write('[package]\nname = "twwitness"\nversion = "0.0.0"\nedition = "2021"\n\n[lib]\npath = "src/lib.rs"\n\n'
                 '[dependencies]\ntextwrap = { path = "%s"%s }\n\n[workspace]\n' % (
                     os.path.abspath(repo), "" if features == "default" else ', default-features = false'))
    lock = os.path.join(repo, "Cargo.lock")
    if os.path.exists(lock):
        shutil.copy2(lock, os.path.join(wdir, "Cargo.lock"))
    out = None
    if os.path.exists(stamp) and os.path.getmtime(stamp) >= os.path.getmtime(src):
        out = open(stamp).read()
    else:
        env = dict(os.environ)
        env["CARGO_NET_OFFLINE"] = "true"
        env["CARGO_TARGET_DIR"] = os.path.join(F.WORK, "witness-target-%s" % tag)
        r = subprocess.run(["cargo", "+nightly", "test", "--doc", "--offline", "--", "--test-threads", "8"], cwd=wdir, env=env,
                           capture_output=True, text=True)
        out = r.stdout + "\n" + r.stderr
        if "running " not in out:
            raise F.BrokenCheck("witness crate did not build:\n" + out[-3000:])
        for f in os.listdir(wdir):
            if f.startswith("result-"):
                os.unlink(os.path.join(wdir, f))
        with open(stamp, "w") as fh:
            fh.write(out)
    res = {}
    for m in re.finditer(r"test src/lib\.rs - (\w+) \(line \d+\)( - compile fail| - compile)? \.\.\. (\w+)", out):
        res[m.group(1)] = (m.group(3) == "ok")
    _CACHE[key] = res
    return res

"""Residual LEDGER obligations confirmed by reading (DESIGN.md 4.1, `TABLE`).

Key: (function, obligation kind, cut shape).  The cut shape renders the
operands with parameters by position ($n), captures by type (^T), user
variables by type (v:T): it is invariant under renames and under edits to
unrelated code, and changes when the operands change.

Each entry names the lemmas it relies on: assumptions (A-*) from DESIGN.md
section 3, or rule ids that the C04 check evaluates in the same run (an
entry whose lemma rule fails is not discharged).  `max` is the number of
obligations that may match the key in one configuration: a new, identical
looking obligation in the same function exceeds it and is reported.
"""

T = {}


def _e(fn, kind, shape, lemmas, why, max=1):
    T[(fn, kind, shape)] = {"lemmas": lemmas, "why": why, "max": max}


WC = "crate::columns::wrap_columns"
_e(WC, "assert:Overflow:Mul", "{$2 k} ; {crate::core::display_width($5)}", ["A-mem"],
   "display_width(middle_gap)*(columns-1) overflowing usize means a row holding columns-1 copies of the gap "
   "could not exist in memory (gap >= 1 byte per column unit); excluded by the memory clause")
_e(WC, "assert:Overflow:Mul", "{(0 Lt (Vec::len(_) Rem $2)) (Vec::len(crate::wrap::wrap(_,_)) Div $2)} ; {Iterator::next!(_)?Some.0}", ["C20.R3"],
   "column_no * lines_per_column: column_no < columns; if lines_per_column >= 2 then columns < L <= isize::MAX and "
   "columns*lines_per_column < L + columns < 2^64; if it is <= 1 the product is < columns")
_e(WC, "assert:Overflow:Add", "{(0 Lt (Vec::len(_) Rem $2)) (Vec::len(crate::wrap::wrap(_,_)) Div $2) Iterator::next!(_)?Some.0} ; {Iterator::next!(_)?Some.0}", ["C20.R3"],
   "line_no + column_no*lines_per_column < lines_per_column*(columns) + lines_per_column <= L + 2*columns")

BW = "crate::core::break_words"
_e(BW, "loop", "$1", ["A-custom", "FROMFN-FINITE"],
   "`words` is a caller-supplied IntoIterator; the crate's only call site passes split_words(find_words(..)), "
   "whose from_fn closures are each discharged by FROMFN-FINITE; user-supplied infinite iterators are outside C04")

_e("crate::core::ch_width", "extern:UnicodeWidthChar::width", "UnicodeWidthChar::width", ["A-uw"],
   "table lookup in unicode-width; total")

FI = "crate::fill::fill_inplace"
_e(FI, "call:Iterator::sum", "Iterator::map([]::iter(_.0),closure{})", ["C11.R1", "C06.R2"],
   "sum over the words of one line of len(word)+len(whitespace): words are contiguous pieces of `line`, so the "
   "sum is <= line.len() <= isize::MAX")
_e(FI, "assert:Overflow:Add", "{Iterator::sum(Iterator::map([]::iter(_),closure{}))} ; {phi:usize}", ["C17.R1", "C11.R1", "C06.R2"],
   "line_offset + line_len <= offset + line.len() <= text.len()")
_e(FI, "assert:Overflow:Sub", "{Iterator::sum(Iterator::map([]::iter(_),closure{})) phi:usize} ; {k}", ["C17.R1", "C06.R2"],
   "line_offset >= 1 after adding the length of a non-empty line of words (first-fit lines are non-empty and "
   "each word has len(word)+len(whitespace) >= 1)")
_e(FI, "assert:Overflow:Add", "{phi:usize} ; {str::len(_?Some.0) k}", ["C17.R1"],
   "offset + line.len() + 1 <= text.len() + 1 (lines are disjoint pieces of text separated by one byte)")
_e(FI, "call:IndexMut::index_mut", "&mut:Vec,Iterator::next!(_)?Some.0", ["C17.R1", "C17.R2", "C17.R3"],
   "recorded indices are offsets of bytes inside `text` (< text.len() = bytes.len())")
_e(FI, "call:Result::unwrap", "String::from_utf8(phi:Vec)", ["C17.R2", "C17.R3", "C11.R1", "C11.R3"],
   "only ASCII b'\\n' is stored, at positions holding ASCII b' ': the buffer stays valid UTF-8")

UF = "crate::refill::unfill"
_e(UF, "call:Index::index", "_.0.1.0,RangeFrom{start:{str::len(phi:Options.initial_indent)}}", ["C15.R1"],
   "initial_indent is a prefix of the first line of text.lines(); the first item of NonEmptyLines is that line "
   "or a longer/equal line (two-iterator agreement, #466): U-clause of C15, recorded here")
_e(UF, "call:Index::index", "_.0.1.0,RangeFrom{start:{str::len(phi:Options.subsequent_indent)}}", ["C15.R1", "C15.R5"],
   "subsequent_indent is a common prefix of lines 2.. of text.lines(); relies on line-iterator agreement")

_e("crate::word_separators::WordSeparator::find_words", "indirect",
   "for<'a> fn(&'a str) -> std::boxed::Box<(dyn std::iter::Iterator<Item = core::Word<'a>> + 'a)>", ["A-custom"],
   "WordSeparator::Custom callback")
_e("crate::word_splitters::WordSplitter::split_points", "indirect", "for<'a> fn(&'a str) -> std::vec::Vec<usize>",
   ["A-custom"], "WordSplitter::Custom callback")
_e("crate::wrap_algorithms::WrapAlgorithm::wrap", "indirect",
   "for<'a, 'b> fn(&'a [core::Word<'b>], &'a [usize]) -> std::vec::Vec<&'a [core::Word<'b>]>", ["A-custom"],
   "WrapAlgorithm::Custom callback")
_e("crate::word_splitters::WordSplitter::split_points", "extern:Hyphenator::hyphenate", "Hyphenator::hyphenate",
   ["A-custom"], "hyphenation dictionary lookup (optional feature)")
_e("crate::<word_splitters::WordSplitter as std::cmp::PartialEq>::eq", "extern:Standard::language",
   "Standard::language", ["A-custom"], "accessor of the hyphenation crate", max=2)
_e("crate::<word_splitters::WordSplitter as std::cmp::PartialEq>::eq", "extern:PartialEq::eq", "PartialEq::eq",
   ["A-custom"], "derived PartialEq of hyphenation::Language")
_e("crate::termwidth::termwidth", "extern:terminal_size::terminal_size", "terminal_size::terminal_size",
   ["A-custom"], "terminal size query (optional feature, not in C04's list)")

UB = "crate::word_separators::find_words_unicode_break_properties"
_e(UB, "extern:unicode_linebreak::linebreaks", "unicode_linebreak::linebreaks", ["A-lb"], "total iterator constructor")
_e(UB + "::{closure#1}", "call:Index::index", "^,RangeTo{end:{$2.0}}", ["A-lb", "C11.R6"],
   "idx is a break opportunity of `stripped` reported by linebreaks(&stripped): a char boundary in (0, len]")
_e(UB + "::{closure#2}", "call:Index::index", "^,Range{start:{^},end:{_?Some.0.0}}", ["C11.R2", "C11.R7"],
   "orig_idx is item .0 of line.char_indices() yielded through the index map (closure#0); start is 0 or an earlier "
   "orig_idx of the same increasing iterator")
_e(UB + "::{closure#2}", "call:Index::index", "^,RangeFrom{start:{^}}", ["C11.R2"],
   "start is 0, an orig_idx of line.char_indices(), or line.len()")

SW = "crate::word_splitters::split_words::{closure#0}::{closure#0}"
_e(SW, "call:Index::index", "^.word,RangeTo{end:{Iterator::next!(_)?Some.0}}", ["C12.R4", "A-custom"],
   "idx comes from split_points(word): hyphen splitter yields match offset + 1 of ASCII '-' (S4); custom "
   "splitters/dictionaries are assumed to return char boundaries (A-custom)")
_e(SW, "call:Index::index", "^.word,Range{start:{^},end:{Iterator::next!(_)?Some.0}}", ["C12.R1", "C12.R4", "A-custom"],
   "prev is 0 or an earlier split point; split points are increasing boundaries", max=2)
_e(SW, "call:Index::index", "^.word,RangeFrom{start:{^}}", ["C12.R1", "C12.R4", "A-custom"],
   "prev is 0 or a split point <= len under the guard prev < len || prev == 0", max=2)

WS = "crate::wrap::wrap_single_line_slow_path"
_e(WS, "call:Iterator::sum", "Iterator::map([]::iter(_.0),closure{})", ["C11.R1", "C12.R1", "C06.R2"],
   "sum of len(word)+len(whitespace) over the words of one output line: contiguous pieces of `line`")
_e(WS, "assert:Overflow:Add", "{Iterator::sum(Iterator::map([]::iter(_),closure{})) str::len(_.0.whitespace)} ; {phi:usize}", ["C01.R1"],
   "idx + len <= line.len(): idx is the byte offset of the first word of this output line")
_e(WS, "call:Index::index", "$1,Range{start:{phi:usize},end:{Iterator::sum(Iterator::map([]::iter(_),closure{})) phi:usize str::len(_.0.whitespace)}}", ["C01.R1", "C11.R1", "C12.R1"],
   "line[idx..idx+len]: both are sums of lengths of consecutive contiguous words, hence char boundaries in order")
_e(WS, "assert:Overflow:Add", "{Iterator::sum(Iterator::map([]::iter(_),closure{})) str::len(_.0.whitespace)} ; {str::len(_.0.whitespace)}", ["C01.R1"],
   "len + last.whitespace.len() equals the sum again (MEMBER-OF-SUM), <= line.len()")
_e(WS, "assert:Overflow:Add", "{Iterator::sum(Iterator::map([]::iter(_),closure{}))} ; {phi:usize}", ["C01.R1"],
   "idx advances by the byte length of the words consumed so far, <= line.len()")

_e("crate::wrap_algorithms::WrapAlgorithm::wrap", "call:Result::unwrap",
   "crate::wrap_algorithms::optimal_fit::wrap_optimal_fit($2,Iterator::collect(Iterator::map(_,_)),_?OptimalFit.0)", ["C04.R3", "DISPATCH"],
   "OverflowError is unreachable for usize-valued widths and penalties (MAG); DISPATCH: the widths are the f64 image of the usize list")
_e("crate::wrap_algorithms::WrapAlgorithm::wrap", "call:Result::unwrap",
   "crate::wrap_algorithms::optimal_fit::wrap_optimal_fit($2,phi:Vec,_?OptimalFit.0)", ["C04.R3", "DISPATCH"],
   "same, with the f64 widths collected by an explicit loop (DISPATCH decides that the Vec is the f64 image of the usize list)")

LN = "crate::wrap_algorithms::optimal_fit::LineNumbers::get"
_e(LN, "assert:Overflow:Add", "{$2} ; {k}", ["A-smawk", "C03.R2"], "i <= fragments.len() <= isize::MAX at every call site (the closure asks for L(i): C03.R2)")
_e(LN, "assert:BoundsCheck", "{Vec::len(RefCell::borrow(_.line_numbers))} ; {Vec::len($3)}", ["A-smawk", "C03.R2"],
   "pos = cache length <= i and minima.len() > i (smawk's contract for the closure; minima complete afterwards)")
_e(LN, "assert:Overflow:Add", "{crate::wrap_algorithms::optimal_fit::LineNumbers::get($1,_[_].0,$3)} ; {k}",
   ["A-smawk"], "line numbers are at most the number of fragments")
_e(LN, "call:Index::index", "RefCell::borrow($1.line_numbers),$2", ["LEN-GROWS"],
   "the preceding loop exits only when len >= i + 1")
_e(LN, "recursion", "crate::wrap_algorithms::optimal_fit::LineNumbers::get", ["A-smawk"],
   "get -> get on minima[pos].0 < pos, whose entry is already cached: depth 1")

OF = "crate::wrap_algorithms::optimal_fit::wrap_optimal_fit"
_e(OF, "extern:smawk::online_column_minima", "smawk::online_column_minima", ["A-smawk"],
   "size = widths.len() >= 1; behaviour on non-finite matrices is a U-clause of C04")
_e(OF, "call:Index::index", "smawk::online_column_minima(0.0,Vec::len(phi:Vec),closure{$1,$2,$3,Option::unwrap_or(_,_),crate::wrap_algorithms::optimal_fit::LineNumbers::new(_),phi:Vec}),phi:usize", ["A-smawk", "C06.R3"],
   "pos starts at fragments.len() = minima.len() - 1 and only decreases")
_e(OF, "call:Index::index", "$1,Range{start:{Index::index(smawk::online_column_minima(_,_,_),phi:usize).0},end:{phi:usize}}", ["A-smawk", "C06.R3"],
   "prev = minima[pos].0 < pos <= fragments.len()")
_e(OF, "loop", "non-iterator", ["A-smawk", "C06.R3"], "pos strictly decreases to 0 (DECREASING)")
_e(OF, "call:Vec::with_capacity", "crate::wrap_algorithms::optimal_fit::LineNumbers::get(crate::wrap_algorithms::optimal_fit::LineNumbers::new([]::len(_)),[]::len($1),smawk::online_column_minima(0.0,Vec::len(_),closure{_,_,_,_,_,_}))",
   ["A-smawk", "C03.R2"], "the capacity hint is the line number of the last fragment, at most fragments.len()")
OC = OF + "::{closure#0}"
_e(OC, "assert:BoundsCheck", "{$3} ; {Vec::len($2)}", ["A-smawk"], "smawk calls m(minima, i, j) with minima.len() > i")
_e(OC, "assert:BoundsCheck", "{$4 k} ; {Vec::len(^)}", ["A-smawk"], "i < j < size = fragments.len() + 1", max=3)
_e(OC, "assert:Overflow:Add", "{$3} ; {k}", ["A-smawk"], "i < j <= fragments.len()")
_e(OC, "assert:Overflow:Sub", "{$4} ; {k}", ["A-smawk"], "j > i >= 0", max=3)
_e(OC, "call:Index::index", "^,$3", ["A-smawk", "C03.R1"], "i < widths.len() = size")
_e(OC, "call:Index::index", "^,$4", ["A-smawk", "C03.R1"], "j < widths.len() = size")

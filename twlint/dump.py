"""Debug aid: print a body's calls, switch conditions and loop phis symbolically."""
import sys
from . import facts as F
from .mir import Facts
from .sym import sym_of, show, pk_of, show_pk


def dump(body):
    s = sym_of(body)
    cfg = body.cfg
    print("==", body.key, body.span, "blocks", len(body.blocks))
    for lp in cfg.loops:
        print("  loop header bb%d body %s exits %s" % (lp["header"], sorted(lp["body"]), lp["exits"]))
    for b in sorted(cfg.reach):
        bl = body.blocks[b]
        t = bl["term"]
        g = s.guards(b)
        gs = " & ".join("%s %s %s" % (show(x[1]), x[0], x[2]) for x in g)
        print("  bb%d succ=%s guards[%s]" % (b, cfg.succ[b], gs))
        for i, st in enumerate(bl["stmts"]):
            if st["k"] == "assign":
                pk = s.lhs_pk(b, i)
                l = pk[0]
                named = body.place_name(st["place"])
                if named or pk[1]:
                    print("      %s%s = %s" % (show_pk(pk), "(%s)" % named if named else "", show(s.rvalue(st["rv"], b, i))))
        if t["k"] == "call":
            print("      call %s -> %s   [%s]" % (show(s.call_term(b)), show_pk(pk_of(t["dest"])), t["span"]))
        elif t["k"] == "switch":
            print("      switch %s %s" % (show(s.switch_value(b)), t["targets"]))
        elif t["k"] == "assert":
            n = len(bl["stmts"])
            print("      assert %s == %s (%s)" % (show(s.operand(t["cond"], b, n)), t["expected"], t["msg"]["kind"]))
        elif t["k"] == "return":
            print("      return %s" % show(s.val((0, ()), b, "term")))
    phis = set()
    for k, v in list(s._memo.items()):
        from .sym import subterms
        for t in subterms(v) if isinstance(v, tuple) else ():
            if t and t[0] == "phi": phis.add(t)
    for ph in sorted(phis, key=str):
        b, pk, ins = ph[1], ph[2], s.phi_inputs(ph)
        print("  phi(bb%d,%s) <- %s" % (b, show_pk(pk), {k: show(v) for k, v in ins.items()}))


if __name__ == "__main__":
    cfgname = sys.argv[1]
    raw, meta = F.export(cfgname)
    facts = Facts(raw, meta)
    for suffix in sys.argv[2:]:
        for body in facts.find_bodies(suffix):
            dump(body)
